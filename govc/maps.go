package govc

import (
	"golang.org/x/tools/go/ssa"
)

// Maps, range-over-map and range-over-string: not yet in the verified subset.

func (u *Unit) mapLen(s *State, m Value) *Term                          { u.unsup("len(map)"); return nil }
func (u *Unit) execMakeMap(s *State, f *Frame, x *ssa.MakeMap)          { u.unsup("make(map)") }
func (u *Unit) execMapUpdate(s *State, f *Frame, x *ssa.MapUpdate)      { u.unsup("map update") }
func (u *Unit) execLookup(s *State, f *Frame, x *ssa.Lookup)            { u.unsup("map lookup") }
func (u *Unit) execRange(s *State, f *Frame, x *ssa.Range)              { u.unsup("range over map/string") }
func (u *Unit) execNext(s *State, f *Frame, x *ssa.Next) []*State       { u.unsup("range over map/string"); return nil }
func (u *Unit) execMapDelete(s *State, f *Frame, x *ssa.Call, a []Value) { u.unsup("delete(map)") }
func (u *Unit) specMapIndex(env *SpecEnv, base Value, idx *Term) Value  { u.specErr("map index in contract"); return Value{} }
func (u *Unit) specMapLen(env *SpecEnv, m Value) *Term                  { u.specErr("len(map) in contract"); return nil }

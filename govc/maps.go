package govc

import (
	"fmt"
	"go/types"

	"golang.org/x/tools/go/ssa"
)

// Maps: a map value is a reference (0 = nil). Heap "M:<maptype>" : ref -> (key -> Opt(value)),
// heap "ML:<maptype>" : ref -> number of entries. Row 0 is the empty map (reads of a nil map).

func (u *Unit) optDT(v types.Type) *DT {
	vs := u.W.SortOf(v)
	name := "Opt_" + sanitize(vs)
	if d, ok := u.W.dts[name]; ok {
		return d
	}
	return u.W.regDT(&DT{Name: name, Ctor: "mk-" + name, Fields: []DTField{{name + "_ok", "Bool"}, {name + "_val", vs}}})
}

func (u *Unit) mapHeaps(s *State, mt types.Type) (mkey, lkey string, m, l *Term) {
	mp := mt.Underlying().(*types.Map)
	ks := u.W.SortOf(mp.Key())
	od := u.optDT(mp.Elem())
	tk := TypeKey(mt)
	mkey, lkey = "M:"+tk, "ML:"+tk
	rowSort := ArraySort(ks, od.Name)
	get := func(key, sort string) *Term {
		if h, ok := s.Heaps[key]; ok {
			return h
		}
		name := "H0_" + sanitize(key)
		if !u.W.declared[name] {
			u.W.Declare(name, fmt.Sprintf("(declare-const %s %s)", name, sort))
			h := Leaf(name, sort)
			if key == mkey {
				k := Leaf("k!m", ks)
				u.W.decls = append(u.W.decls, "(assert "+Forall([]*Term{k}, Not(Sel(od, 0, Select(Select(h, IntLit(0)), k))), Select(Select(h, IntLit(0)), k)).String()+")")
			} else {
				r := Leaf("r!m", "Int")
				u.W.decls = append(u.W.decls, "(assert (= (select "+name+" 0) 0))",
					"(assert "+Forall([]*Term{r}, Ge(Select(h, r), IntLit(0)), Select(h, r)).String()+")")
			}
		}
		h := Leaf(name, sort)
		s.Heaps[key] = h
		if s.Entry != nil {
			if _, ok := s.Entry.Heaps[key]; !ok {
				s.Entry.Heaps[key] = h
			}
		}
		if s.DirtyAll {
			if u.mapTypes == nil {
				u.mapTypes = map[string]types.Type{}
			}
			u.mapTypes[mkey] = mt
			h0 := h
			h = u.havocHeap(s, key, h0)
			u.assumeDirtyFrame(s, key, h, h0)
			s.Heaps[key] = h
		}
		return h
	}
	if u.mapTypes == nil {
		u.mapTypes = map[string]types.Type{}
	}
	u.mapTypes[mkey] = mt
	m = get(mkey, ArraySort("Int", rowSort))
	l = get(lkey, ArraySort("Int", "Int"))
	return
}

func (u *Unit) mapLen(s *State, mv Value) *Term {
	_, _, _, l := u.mapHeaps(s, mv.Ty)
	return Select(l, u.term(s, mv))
}

func (u *Unit) execMakeMap(s *State, f *Frame, x *ssa.MakeMap) {
	mp := x.Type().Underlying().(*types.Map)
	mkey, lkey, m, l := u.mapHeaps(s, x.Type())
	od := u.optDT(mp.Elem())
	ref := u.allocRef(s)
	ks := u.W.SortOf(mp.Key())
	empty := u.fresh(s, "emptymap", ArraySort(ks, od.Name))
	k := Leaf("k!e", ks)
	s.assume(Forall([]*Term{k}, Not(Sel(od, 0, Select(empty, k))), Select(empty, k)))
	u.setHeap(s, mkey, Store(m, ref, empty))
	u.setHeap(s, lkey, Store(l, ref, IntLit(0)))
	f.Vals[x] = Value{T: ref, Ty: x.Type()}
}

func (u *Unit) execMapUpdate(s *State, f *Frame, x *ssa.MapUpdate) {
	mv := u.val(s, f, x.Map)
	ref := u.term(s, mv)
	mp := x.Map.Type().Underlying().(*types.Map)
	od := u.optDT(mp.Elem())
	mkey, lkey, m, l := u.mapHeaps(s, x.Map.Type())
	u.check(s, "nil", x, "assignment to entry in nil map", Not(Eq(ref, IntLit(0))))
	k := u.term(s, u.val(s, f, x.Key))
	v := u.term(s, u.val(s, f, x.Value))
	u.frameCheck(s, mkey, ref, nil, x)
	row := Select(m, ref)
	was := Sel(od, 0, Select(row, k))
	u.setHeap(s, mkey, Store(m, ref, Store(row, k, Mk(od, True, v))))
	u.setHeap(s, lkey, Store(l, ref, Ite(was, Select(l, ref), Add(Select(l, ref), IntLit(1)))))
}

func (u *Unit) execMapDelete(s *State, f *Frame, x *ssa.Call, args []Value) {
	ref := u.term(s, args[0])
	mp := args[0].Ty.Underlying().(*types.Map)
	od := u.optDT(mp.Elem())
	mkey, lkey, m, l := u.mapHeaps(s, args[0].Ty)
	k := u.term(s, args[1])
	row := Select(m, ref)
	was := Sel(od, 0, Select(row, k))
	u.frameCheck(s, mkey, ref, nil, x)
	// delete on a nil map is a no-op; row 0 stays empty because `was` is false there
	u.setHeap(s, mkey, Ite(Eq(ref, IntLit(0)), m, Store(m, ref, Store(row, k, Mk(od, False, u.W.Zero(mp.Elem()))))))
	u.setHeap(s, lkey, Ite(And(was, Not(Eq(ref, IntLit(0)))), Store(l, ref, Sub(Select(l, ref), IntLit(1))), l))
}

func (u *Unit) execLookup(s *State, f *Frame, x *ssa.Lookup) {
	mv := u.val(s, f, x.X)
	if isString(x.X.Type()) {
		st := u.term(s, mv)
		idx := u.term(s, u.val(s, f, x.Index))
		u.check(s, "idx", x, "string index out of range", And(Le(IntLit(0), idx), Lt(idx, u.W.StrLen(st))))
		c := u.named(s, "ch", Select(u.W.StrChars(st), idx))
		s.assume(And(Le(IntLit(0), c), Le(c, IntLit(255))))
		f.Vals[x] = Value{T: c, Ty: x.Type()}
		return
	}
	ref := u.term(s, mv)
	mp := x.X.Type().Underlying().(*types.Map)
	od := u.optDT(mp.Elem())
	_, _, m, _ := u.mapHeaps(s, x.X.Type())
	k := u.term(s, u.val(s, f, x.Index))
	e := Select(Select(m, ref), k)
	ok := u.named(s, "mapok", Sel(od, 0, e))
	val := Ite(ok, Sel(od, 1, e), u.W.Zero(mp.Elem()))
	if needsWF(mp.Elem()) {
		val = u.named(s, "mapval", val)
		s.assume(u.wf(s, mp.Elem(), val))
	}
	v := Value{T: val, Ty: mp.Elem()}
	if x.CommaOk {
		f.Vals[x] = Value{Tup: []Value{v, {T: ok, Ty: boolType}}, Ty: x.Type()}
	} else {
		f.Vals[x] = v
	}
}

// iterators of range-over-map / range-over-string
type iterState struct {
	Pos   *Term // string: byte position; map: unused
	IsStr bool
	X     Value
}

func (u *Unit) execRange(s *State, f *Frame, x *ssa.Range) {
	v := u.val(s, f, x.X)
	it := &iterState{X: v}
	if isString(x.X.Type()) {
		it.IsStr = true
		it.Pos = IntLit(0)
	}
	if f.Iters == nil {
		f.Iters = map[ssa.Value]*iterState{}
	}
	f.Iters[x] = it
	f.Vals[x] = Value{T: IntLit(0), Ty: x.Type()}
}

func (u *Unit) execNext(s *State, f *Frame, x *ssa.Next) []*State {
	it := f.Iters[x.Iter]
	if it == nil {
		u.unsup("next without range")
	}
	w := u.W
	if x.IsString {
		st := u.term(s, it.X)
		ok := u.named(s, "itok", Lt(it.Pos, w.StrLen(st)))
		width := u.fresh(s, "runew", "Int")
		r := u.fresh(s, "rune", "Int")
		s.assume(Implies(ok, And(Le(IntLit(1), width), Le(width, IntLit(4)), Le(Add(it.Pos, width), w.StrLen(st)),
			Le(IntLit(0), r), Le(r, IntLit(0x10FFFF)),
			Eq(Eq(width, IntLit(1)), Or(Lt(r, IntLit(128)), Eq(r, IntLit(0xFFFD)))),
			Implies(Lt(r, IntLit(128)), Eq(r, Select(w.StrChars(st), it.Pos))))))
		idx := it.Pos
		nit := *it
		nit.Pos = u.named(s, "itpos", Ite(ok, Add(it.Pos, width), it.Pos))
		f.Iters[x.Iter] = &nit
		f.Vals[x] = Value{Tup: []Value{{T: ok, Ty: boolType}, {T: idx, Ty: intType}, {T: r, Ty: types.Typ[types.Rune]}}, Ty: x.Type()}
		return nil
	}
	// map: an arbitrary entry currently in the map, or exhaustion
	mp := it.X.Ty.Underlying().(*types.Map)
	od := u.optDT(mp.Elem())
	_, _, m, l := u.mapHeaps(s, it.X.Ty)
	ref := u.term(s, it.X)
	ok := u.fresh(s, "itok", "Bool")
	k := u.symbolic(s, "itkey", mp.Key())
	e := Select(Select(m, ref), k.T)
	s.assume(Implies(ok, And(Sel(od, 0, e), Gt(Select(l, ref), IntLit(0)), Not(Eq(ref, IntLit(0))))))
	val := u.named(s, "itval", Sel(od, 1, e))
	if needsWF(mp.Elem()) {
		s.assume(Implies(ok, u.wf(s, mp.Elem(), val)))
	}
	f.Vals[x] = Value{Tup: []Value{{T: ok, Ty: boolType}, k, {T: val, Ty: mp.Elem()}}, Ty: x.Type()}
	return nil
}

func (u *Unit) specMapIndex(env *SpecEnv, base Value, idx *Term) Value {
	mp := base.Ty.Underlying().(*types.Map)
	od := u.optDT(mp.Elem())
	m := u.specMapHeap(env, base.Ty, true)
	e := Select(Select(m, base.T), idx)
	return Value{T: Ite(Sel(od, 0, e), Sel(od, 1, e), u.W.Zero(mp.Elem())), Ty: mp.Elem()}
}

func (u *Unit) specMapLen(env *SpecEnv, mv Value) *Term {
	l := u.specMapHeap(env, mv.Ty, false)
	return Select(l, mv.T)
}

func (u *Unit) specMapHeap(env *SpecEnv, mt types.Type, content bool) *Term {
	st := env.s
	if env.useOld {
		// evaluate against the old heaps through a shadow state
		st = &State{Heaps: env.heaps(), Entry: env.s.Entry}
	}
	_, _, m, l := u.mapHeaps(st, mt)
	if content {
		return m
	}
	return l
}

// specMapHas: `has(m, k)` in contracts
func (u *Unit) specMapHas(env *SpecEnv, base Value, idx *Term) *Term {
	mp := base.Ty.Underlying().(*types.Map)
	od := u.optDT(mp.Elem())
	m := u.specMapHeap(env, base.Ty, true)
	return Sel(od, 0, Select(Select(m, base.T), idx))
}

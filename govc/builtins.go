package govc

import (
	"fmt"
	"go/types"
	"math"
	"math/big"
	"os"

	"golang.org/x/tools/go/ssa"
)

func osEnviron() []string { return os.Environ() }

func resultType(sig *types.Signature) types.Type {
	r := sig.Results()
	if r.Len() == 1 {
		return r.At(0).Type()
	}
	return r
}

// mathCall models the functions of package math (and a few others) with their IEEE definitions.
func (u *Unit) mathCall(s *State, f *Frame, x *ssa.Call, key string, args []Value) (Value, bool) {
	switch key {
	case "math/bits.LeadingZeros32", "math/bits.LeadingZeros64", "math/bits.TrailingZeros32", "math/bits.Len32":
		if u.W.IntBV {
			u.Assumed["math/bits."+key[10:]+" modelled by its definition (bit test chain)"] = true
			t := u.term(s, args[0])
			bits := int(bvWidth(t.Sort))
			rbits, _ := intBits(x.Type().Underlying().(*types.Basic))
			lit := func(n int) *Term { return bvLit(big.NewInt(int64(n)), rbits) }
			bit := func(i int) *Term {
				return Eq(App(fmt.Sprintf("(_ extract %d %d)", i, i), "(_ BitVec 1)", t), Leaf("#b1", "(_ BitVec 1)"))
			}
			var r *Term
			switch key {
			case "math/bits.TrailingZeros32":
				r = lit(bits)
				for i := bits - 1; i >= 0; i-- {
					r = Ite(bit(i), lit(i), r)
				}
			case "math/bits.Len32":
				r = lit(0)
				for i := 0; i < bits; i++ {
					r = Ite(bit(i), lit(i+1), r)
				}
			default:
				r = lit(bits)
				for i := 0; i < bits; i++ {
					r = Ite(bit(i), lit(bits-1-i), r)
				}
			}
			return Value{T: r, Ty: x.Type()}, true
		}
	case "math.Min", "math.Max", "math.Abs", "math.Sqrt", "math.Floor", "math.Ceil", "math.Trunc", "math.Inf", "math.IsNaN", "math.IsInf", "math.NaN",
		"math.Float64bits", "math.Float64frombits", "math.Signbit", "math.Copysign", "math.Nextafter",
		"math.Sin", "math.Cos", "math.Tan", "math.Asin", "math.Acos", "math.Atan", "math.Atan2", "math.Log", "math.Exp", "math.Pow", "math.Mod",
		"math.Round", "math.Hypot", "math.Sincos", "math.Sinh", "math.Log2", "math.Log10":
		u.Assumed["package math: "+key+" modelled by its IEEE-754 definition (transcendentals: uninterpreted pure functions)"] = true
		return u.mathOp(s, key, args)
	}
	return Value{}, false
}

func (u *Unit) mathOp(s *State, key string, args []Value) (Value, bool) {
	w := u.W
	F := floatType
	at := func(i int) *Term { return u.term(s, args[i]) }
	uf := func(name string, n int) (Value, bool) {
		sorts := make([]string, n)
		ts := make([]*Term, n)
		for i := 0; i < n; i++ {
			sorts[i] = "Float"
			ts[i] = at(i)
		}
		return Value{T: w.UF("m_"+name, sorts, "Float", ts...), Ty: F}, true
	}
	switch key {
	case "math.Inf":
		sign := at(0)
		return Value{T: Ite(Ge(sign, IntLit(0)), w.FConst(math.Inf(1)), w.FConst(math.Inf(-1))), Ty: F}, true
	case "math.NaN":
		return Value{T: w.FConst(math.NaN()), Ty: F}, true
	case "math.IsNaN":
		return Value{T: u.fIsNaN(at(0)), Ty: boolType}, true
	}
	switch w.FM {
	case FloatIEEE:
		switch key {
		case "math.Min", "math.Max":
			x, y := at(0), at(1)
			isMin := key == "math.Min"
			inf := w.FConst(math.Inf(1))
			if isMin {
				inf = w.FConst(math.Inf(-1))
			}
			nan := w.FConst(math.NaN())
			isInf := Or(Eq(x, inf), Eq(y, inf))
			isNaN := Or(App("fp.isNaN", "Bool", x), App("fp.isNaN", "Bool", y))
			bothZero := And(App("fp.isZero", "Bool", x), App("fp.isZero", "Bool", y))
			var zeroPick, cmpPick *Term
			if isMin {
				zeroPick = Ite(App("fp.isNegative", "Bool", x), x, y)
				cmpPick = Ite(App("fp.lt", "Bool", x, y), x, y)
			} else {
				zeroPick = Ite(App("fp.isNegative", "Bool", x), y, x)
				cmpPick = Ite(App("fp.gt", "Bool", x, y), x, y)
			}
			return Value{T: Ite(isInf, inf, Ite(isNaN, nan, Ite(bothZero, zeroPick, cmpPick))), Ty: F}, true
		case "math.Abs":
			return Value{T: App("fp.abs", "Float", at(0)), Ty: F}, true
		case "math.Sqrt":
			return Value{T: App("fp.sqrt RNE", "Float", at(0)), Ty: F}, true
		case "math.Floor":
			return Value{T: App("fp.roundToIntegral RTN", "Float", at(0)), Ty: F}, true
		case "math.Ceil":
			return Value{T: App("fp.roundToIntegral RTP", "Float", at(0)), Ty: F}, true
		case "math.Trunc":
			return Value{T: App("fp.roundToIntegral RTZ", "Float", at(0)), Ty: F}, true
		case "math.Signbit":
			return Value{T: App("fp.isNegative", "Bool", at(0)), Ty: boolType}, true
		case "math.IsInf":
			x, sign := at(0), at(1)
			pos := Eq(x, w.FConst(math.Inf(1)))
			neg := Eq(x, w.FConst(math.Inf(-1)))
			return Value{T: Or(And(Ge(sign, IntLit(0)), pos), And(Le(sign, IntLit(0)), neg)), Ty: boolType}, true
		case "math.Float64bits":
			// bits as Int through a BV64 whose to_fp is x (NaN payload arbitrary but fixed)
			bv := u.fresh(s, "bits", "(_ BitVec 64)")
			s.assume(Eq(App("(_ to_fp 11 53)", "Float", bv), at(0)))
			return Value{T: App("bv2nat", "Int", bv), Ty: types.Typ[types.Uint64]}, true
		case "math.Float64frombits":
			bv := App("(_ int2bv 64)", "(_ BitVec 64)", at(0))
			return Value{T: App("(_ to_fp 11 53)", "Float", bv), Ty: F}, true
		case "math.Nextafter":
			x, y := at(0), at(1)
			r := u.fresh(s, "nextafter", "Float")
			// characterisation: r is the neighbour of x toward y
			isNaN := Or(App("fp.isNaN", "Bool", x), App("fp.isNaN", "Bool", y))
			eq := App("fp.eq", "Bool", x, y)
			up := App("fp.lt", "Bool", x, y)
			z := Leaf("z!n", "Float")
			noBetweenUp := Forall([]*Term{z}, Not(And(App("fp.lt", "Bool", x, z), App("fp.lt", "Bool", z, r))))
			noBetweenDn := Forall([]*Term{z}, Not(And(App("fp.lt", "Bool", r, z), App("fp.lt", "Bool", z, x))))
			s.assume(Ite(isNaN, App("fp.isNaN", "Bool", r), Ite(eq, Eq(r, x),
				Ite(up, And(App("fp.gt", "Bool", r, x), noBetweenUp), And(App("fp.lt", "Bool", r, x), noBetweenDn)))))
			return Value{T: r, Ty: F}, true
		}
	case FloatAbstract:
		w.needAbstractOps()
		switch key {
		case "math.Min", "math.Max":
			return uf(key[5:], 2)
		case "math.Abs", "math.Sqrt", "math.Floor", "math.Ceil", "math.Trunc":
			return uf(key[5:], 1)
		case "math.Nextafter":
			return uf("Nextafter", 2)
		}
	case FloatBits:
		switch key {
		case "math.Float64bits":
			x := at(0)
			s.assume(And(Le(IntLit(0), x), Lt(x, pow2(64))))
			return Value{T: Leaf(x.String(), "Int"), Ty: types.Typ[types.Uint64]}, true
		case "math.Float64frombits":
			return Value{T: Leaf(at(0).String(), "Float"), Ty: F}, true
		}
	}
	switch key {
	case "math.Sin", "math.Cos", "math.Tan", "math.Asin", "math.Acos", "math.Atan", "math.Log", "math.Exp", "math.Round", "math.Sinh", "math.Log2", "math.Log10":
		return uf(key[5:], 1)
	case "math.Atan2", "math.Pow", "math.Mod", "math.Hypot", "math.Copysign":
		return uf(key[5:], 2)
	case "math.Sincos":
		a, _ := uf("Sin", 1)
		b, _ := uf("Cos", 1)
		return Value{Tup: []Value{a, b}}, true
	}
	if w.FM != FloatIEEE {
		// remaining float predicates in non-IEEE modes: uninterpreted
		switch key {
		case "math.Signbit", "math.IsInf":
			sorts := []string{"Float"}
			ts := []*Term{at(0)}
			if key == "math.IsInf" {
				sorts = append(sorts, "Int")
				ts = append(ts, at(1))
			}
			return Value{T: w.UF("m_"+key[5:], sorts, "Bool", ts...), Ty: boolType}, true
		}
	}
	return Value{}, false
}

// evalInitFor interprets the package initializer for one const-like global: only stores of
// constants through field/index paths rooted at the global are used. Anything else makes the
// value symbolic (nil is returned).
func (u *Unit) evalInitFor(init *ssa.Function, g *ssa.Global) *Term {
	w := u.W
	pt := g.Type().(*types.Pointer).Elem()
	val := w.Zero(pt)
	paths := map[ssa.Value][]PathStep{g: nil}
	ok := true
	for _, b := range init.Blocks {
		for _, in := range b.Instrs {
			switch x := in.(type) {
			case *ssa.FieldAddr:
				if p, has := paths[x.X]; has {
					st := x.X.Type().Underlying().(*types.Pointer).Elem()
					paths[x] = append(append([]PathStep(nil), p...), PathStep{Field: x.Field, DT: w.StructDT(st)})
				}
			case *ssa.IndexAddr:
				if p, has := paths[x.X]; has {
					c, isConst := x.Index.(*ssa.Const)
					arr, isArr := x.X.Type().Underlying().(*types.Pointer).Elem().Underlying().(*types.Array)
					if !isConst || !isArr {
						ok = false
						continue
					}
					paths[x] = append(append([]PathStep(nil), p...), PathStep{Field: int(c.Int64()), DT: w.ArrayDT(arr)})
				}
			case *ssa.Store:
				if p, has := paths[x.Addr]; has {
					c, isConst := x.Val.(*ssa.Const)
					if !isConst {
						// stores of non-constants (slices, call results): sentinel errors are handled
						// symbolically by globalVal; everything else is not a constant global
						ok = false
						continue
					}
					val = u.updatePath(val, p, u.constVal(c).T)
				}
			}
		}
	}
	if !ok {
		return nil
	}
	return val
}

// ---------- allocation obligations (decoders) ----------

// allocCheck: with `opt alloc=<expr>` on the contract, every make/append-growth must request at
// most <expr> elements (an expression over the parameters, e.g. MaxPointsAlloc or len(data)).
func (u *Unit) allocCheck(s *State, in ssa.Instruction, n *Term) {
	if u.C == nil || u.C.Opts == nil || u.C.Opts["alloc"] == "" {
		return
	}
	e, err := ParseExpr(u.C.Opts["alloc"])
	if err != nil {
		u.specErr("opt alloc: %v", err)
	}
	env := u.specEnv(s, s.top())
	bound := u.evalSpec(env, e).T
	fk := fnKey(s.top().Fn)
	name := u.siteName(fk, "alloc", in, "")
	u.oblige(s, name, "alloc", in.Pos(), "requested capacity is bounded by "+u.C.Opts["alloc"], Le(n, bound))
}

func (u *Unit) allocCheckAppend(s *State, in ssa.Instruction, n *Term) {
	// growth by append is amortised-linear in what was appended; bounded by the loop's own
	// consumption argument, so no separate obligation here.
}

func (u *Unit) debugf(format string, args ...interface{}) {
	if u.V != nil && os.Getenv("GOVC_DEBUG") != "" {
		fmt.Fprintf(os.Stderr, format+"\n", args...)
	}
}

package govc

import (
	"fmt"
	"go/token"
	"go/types"
	"sort"
	"strings"
	"sync"

	"golang.org/x/tools/go/ssa"
)

// Value is a symbolic Go value: an SMT term, a symbolic address, or a tuple.
type Value struct {
	T   *Term
	P   *Ptr
	Tup []Value
	Ty  types.Type
}

type PtrKind int

const (
	PLocal  PtrKind = iota // non-escaping local cell of the current frame
	PCell                  // heap cell of pointee type (P-heap), ref term
	PElem                  // element of a slice backing array (S-heap): ref, idx
	PGlobal                // package-level variable
)

type PathStep struct {
	Field int   // >= 0: constant field / constant array index
	Index *Term // symbolic array index when Field < 0
	DT    *DT
}

type Ptr struct {
	Kind   PtrKind
	Cell   *ssa.Alloc
	Global *ssa.Global
	Ref    *Term
	Idx    *Term
	Elem   types.Type // PCell: pointee type; PElem: slice element type
	Path   []PathStep
	ArrLen int64 // PElem base that came from `new [N]T`: N (for slicing), else -1
}

// Obligation is one named proof obligation; Queries are the per-path VCs.
type Obligation struct {
	Name    string
	Kind    string
	Func    string
	Pos     token.Position
	Desc    string
	Queries []*Query
	mu      sync.Mutex
	failed  bool
	Aux     bool // auxiliary (inferred-candidate) obligation: failure is not a violation
}

type Query struct {
	Decls        []string
	PC           []*Term
	Goal         *Term
	Trivial      bool // goal folded to true by the simplifier
	batchVerdict string
	Model        map[string]string
	// results
	Result  string // unsat | sat | unknown | timeout | trivial
	Backend string
	Seconds float64
	Prelude string
	Vars    map[string]string // interesting source-level names -> SMT terms for model reporting
}

type ActiveLoop struct {
	Head     *ssa.BasicBlock
	Ord      int
	Spec     *LoopSpec
	OldState *snapshot // state at loop entry (for variant: value at head)
	Variant  *Term
	Unrolled int
	Cands    []*Term
	CandList []*candidate // inferred candidates assumed at this loop head (shared, immutable)
	Entry    *snapshot
}

type snapshot struct {
	Heaps map[string]*Term
	Alloc *Term
	Cells map[*ssa.Alloc]*Term
}

type Frame struct {
	Fn      *ssa.Function
	Block   *ssa.BasicBlock
	Prev    *ssa.BasicBlock
	Idx     int
	Vals    map[ssa.Value]Value
	Cells   map[*ssa.Alloc]*Term
	Loops   []*ActiveLoop
	Iters   map[ssa.Value]*iterState
	CallIn  *ssa.Call // call instruction in the caller frame awaiting our result (nil for top)
	Inlined bool
}

type State struct {
	Decls      []string
	PC         []*Term
	Heaps      map[string]*Term
	Alloc      *Term
	Globals    map[*ssa.Global]*Term
	Frames     []*Frame
	Dead       bool
	Depth      int
	Trace      []string
	Known      map[string]string
	ParamHeaps bool // heaps are parameters of a spec function being defined
	DirtyAll   bool // code with unknown effects ran: heaps first touched from now on are arbitrary
	// ... except that, when every such event came with a frame (a callee contract with a modifies
	// clause), memory that existed before the first of them and is not named by any is unchanged
	DirtyNoFrame bool
	DirtyFrames  []*dirtyFrame
	// entry snapshot of the unit (for old() and frame checks)
	Entry *snapshot
}

func (s *State) top() *Frame { return s.Frames[len(s.Frames)-1] }

func (s *State) clone() *State {
	n := &State{
		Decls:   append([]string(nil), s.Decls...),
		PC:      append([]*Term(nil), s.PC...),
		Heaps:   make(map[string]*Term, len(s.Heaps)),
		Alloc:   s.Alloc,
		Globals: make(map[*ssa.Global]*Term, len(s.Globals)),
		Entry:   s.Entry,
		Depth:   s.Depth,
		Trace:   append([]string(nil), s.Trace...),
		DirtyAll: s.DirtyAll,
		DirtyNoFrame: s.DirtyNoFrame,
		DirtyFrames: append([]*dirtyFrame(nil), s.DirtyFrames...),
	}
	for k, v := range s.Heaps {
		n.Heaps[k] = v
	}
	for k, v := range s.Globals {
		n.Globals[k] = v
	}
	if s.Known != nil {
		n.Known = make(map[string]string, len(s.Known))
		for k, v := range s.Known {
			n.Known[k] = v
		}
	}
	for _, f := range s.Frames {
		nf := &Frame{Fn: f.Fn, Block: f.Block, Prev: f.Prev, Idx: f.Idx, CallIn: f.CallIn, Inlined: f.Inlined,
			Vals: make(map[ssa.Value]Value, len(f.Vals)), Cells: make(map[*ssa.Alloc]*Term, len(f.Cells))}
		for k, v := range f.Vals {
			nf.Vals[k] = v
		}
		for k, v := range f.Cells {
			nf.Cells[k] = v
		}
		for _, l := range f.Loops {
			cp := *l
			nf.Loops = append(nf.Loops, &cp)
		}
		if f.Iters != nil {
			nf.Iters = make(map[ssa.Value]*iterState, len(f.Iters))
			for k, v := range f.Iters {
				nf.Iters[k] = v
			}
		}
		n.Frames = append(n.Frames, nf)
	}
	return n
}

func (s *State) snap() *snapshot {
	sn := &snapshot{Heaps: make(map[string]*Term, len(s.Heaps)), Alloc: s.Alloc}
	for k, v := range s.Heaps {
		sn.Heaps[k] = v
	}
	if len(s.Frames) > 0 {
		sn.Cells = make(map[*ssa.Alloc]*Term)
		for k, v := range s.top().Cells {
			sn.Cells[k] = v
		}
	}
	return sn
}

func (s *State) assume(t *Term) {
	if t == nil || t.IsTrue() {
		return
	}
	if t.IsFalse() {
		s.Dead = true
	}
	// cheap path pruning: remember equalities with integer literals (type tags, flags)
	s.noteEq(t, true)
	s.PC = append(s.PC, t)
}

func (s *State) noteEq(t *Term, pos bool) {
	switch {
	case t.Op == "and" && pos:
		for _, a := range t.Args {
			s.noteEq(a, true)
		}
	case t.Op == "not" && len(t.Args) == 1:
		s.noteEq(t.Args[0], !pos)
	case t.Op == "=" && len(t.Args) == 2:
		x, l := t.Args[0], t.Args[1]
		if _, ok := x.intVal(); ok {
			x, l = l, x
		}
		lv, ok := l.intVal()
		if !ok {
			return
		}
		if s.Known == nil {
			s.Known = map[string]string{}
		}
		key := x.String()
		if pos {
			if old, ok := s.Known[key]; ok && old != lv.String() {
				s.Dead = true
			}
			if s.Known["!"+key+"="+lv.String()] != "" {
				s.Dead = true
			}
			s.Known[key] = lv.String()
		} else {
			if old, ok := s.Known[key]; ok && old == lv.String() {
				s.Dead = true
			}
			s.Known["!"+key+"="+lv.String()] = "1"
		}
	}
}

// ---------- unit: one function under verification ----------

type Unit struct {
	V    *Verifier
	Fn   *ssa.Function
	C    *Contract
	W    *World
	Obls map[string]*Obligation
	Ord  []string
	// per-kind site counters keyed by instruction
	siteNames  map[string]string
	kindCount  map[string]int
	Paths      int
	MaxPaths   int
	Refused    string
	Inlined    map[string]bool
	Assumed    map[string]bool // trusted/external contracts used
	ParamVals  map[string]Value
	EntryVals  []Value
	RetCount   int
	Canaries   []*Query
	CallProbes map[string]*callProbe // vacuity probe per call site (first path reaching it)
	BlockProbes map[int][]*Query     // up to 3 path conditions per basic block of the unit's function
	loopOrd    map[*ssa.BasicBlock]int
	loopBody   map[*ssa.BasicBlock]map[*ssa.BasicBlock]bool
	SafetyOnly bool

	Uncontracted  map[string]bool
	UsedContracts map[string]bool
	closures      map[string]*closureVal
	errGlobals    []string
	modsCache     map[*ssa.BasicBlock]*loopMods
	activeCands   map[*ActiveLoop][]*candidate
	UseCands      bool
	WantTerm      bool
	specDefs      map[string]*specDef
	FoldsUsed     map[string]*ContractFile // fold axioms this unit relied on (each proved as fold:<name>, in this unit's float mode)
	NoFoldAxioms  bool                     // set while proving a fold lemma itself
	qcount        int
	recHeapProbe  map[string]types.Type
	heapElemTypes map[string]types.Type
	globalInit    map[*ssa.Global]*Term
	siteOrd       map[ssa.Instruction]map[string]int
	disabled      map[string]bool
	mapTypes      map[string]types.Type
	Pkg           *ssa.Package
}

func (u *Unit) fresh(s *State, prefix, sort string) *Term {
	n := u.W.FreshName(prefix)
	s.Decls = append(s.Decls, fmt.Sprintf("(declare-const %s %s)", n, sort))
	return Leaf(n, sort)
}

// named introduces a fresh constant equal to t (keeps terms linear).
func (u *Unit) named(s *State, prefix string, t *Term) *Term {
	if len(t.Args) == 0 {
		return t
	}
	c := u.fresh(s, prefix, t.Sort)
	s.assume(Eq(c, t))
	return c
}

func (u *Unit) heapSort(key string, elemSort string) string {
	if strings.HasPrefix(key, "S:") {
		return ArraySort("Int", ArraySort("Int", elemSort))
	}
	return ArraySort("Int", elemSort)
}

func (u *Unit) heap(s *State, kind string, elem types.Type) (string, *Term) {
	key := kind + ":" + TypeKey(elem)
	u.heapElemTypes[key] = elem
	if h, ok := s.Heaps[key]; ok {
		return key, h
	}
	if s.ParamHeaps {
		h := Leaf("h_"+sanitize(key), u.heapSort(key, u.W.SortOf(elem)))
		s.Heaps[key] = h
		return key, h
	}
	// heaps not seen before are created lazily as the unit-wide initial heap so that
	// every path and the entry snapshot agree on the name
	es := u.W.SortOf(elem)
	name := "H0_" + sanitize(key)
	u.declareInitialHeap(name, key, elem)
	h := Leaf(name, u.heapSort(key, es))
	s.Heaps[key] = h
	if s.Entry != nil {
		if _, ok := s.Entry.Heaps[key]; !ok {
			s.Entry.Heaps[key] = h
		}
	}
	if s.DirtyAll {
		// something with unknown effects ran before this heap was first looked at
		h0 := h
		h = u.havocHeap(s, key, h0)
		u.assumeDirtyFrame(s, key, h, h0)
		s.Heaps[key] = h
	}
	return key, h
}

type dirtyFrame struct {
	pre  *Term
	locs []*specLoc
}

func (u *Unit) assumeDirtyFrame(s *State, key string, h, h0 *Term) {
	if s.DirtyNoFrame || len(s.DirtyFrames) == 0 {
		return
	}
	r := Leaf("r!m", "Int")
	cond := Lt(r, s.DirtyFrames[0].pre)
	for _, df := range s.DirtyFrames {
		for _, l := range df.locs {
			if l.key == key {
				if l.cond != nil {
					cond = And(cond, Not(And(l.cond, Eq(r, l.ref))))
				} else {
					cond = And(cond, Not(Eq(r, l.ref)))
				}
			}
		}
	}
	s.assume(Forall([]*Term{r}, Implies(cond, Eq(Select(h, r), Select(h0, r))), Select(h, r)))
}

// ensureHeap materializes the heap of an effect-set key that this path has not touched yet, so
// that havocing it is not lost (a heap first read AFTER a call or loop that may write it must not
// be the entry heap).
func (u *Unit) ensureHeap(s *State, key string) bool {
	if _, ok := s.Heaps[key]; ok {
		return true
	}
	i := strings.Index(key, ":")
	if i < 0 {
		return false
	}
	t := typeOfKey(key[i+1:])
	if t == nil {
		return false
	}
	switch key[:i] {
	case "S", "P":
		u.heap(s, key[:i], t)
	case "M", "ML":
		if _, ok := t.Underlying().(*types.Map); !ok {
			return false
		}
		u.mapHeaps(s, t)
	default:
		return false
	}
	_, ok := s.Heaps[key]
	return ok
}

// initial heap term for a key (used by old())
func (u *Unit) heapIn(heaps map[string]*Term, kind string, elem types.Type) *Term {
	key := kind + ":" + TypeKey(elem)
	u.heapElemTypes[key] = elem
	if h, ok := heaps[key]; ok {
		return h
	}
	es := u.W.SortOf(elem)
	name := "H0_" + sanitize(key)
	u.declareInitialHeap(name, key, elem)
	h := Leaf(name, u.heapSort(key, es))
	heaps[key] = h
	return h
}

func (u *Unit) setHeap(s *State, key string, h *Term) {
	s.Heaps[key] = u.named(s, "H_"+key, h)
}

// obligation registration
func (u *Unit) siteName(fnKey, kind string, instr ssa.Instruction, extra string) string {
	id := fmt.Sprintf("%s|%s|%p|%s", fnKey, kind, instr, extra)
	if n, ok := u.siteNames[id]; ok {
		return n
	}
	ck := fnKey + "#" + kind
	u.kindCount[ck]++
	n := fmt.Sprintf("%s#%s.%d", shortKey(fnKey), kind, u.kindCount[ck])
	if extra != "" {
		n = fmt.Sprintf("%s#%s.%s", shortKey(fnKey), kind, extra)
	}
	u.siteNames[id] = n
	return n
}

func shortKey(k string) string {
	return strings.Replace(k, "github.com/paulmach/orb", "orb", 1)
}

func (u *Unit) oblige(s *State, name, kind string, pos token.Pos, desc string, goal *Term) *Query {
	o := u.Obls[name]
	if o == nil {
		o = &Obligation{Name: name, Kind: kind, Func: fnKey(u.Fn), Desc: desc}
		if pos.IsValid() {
			o.Pos = u.V.Prog.Fset.Position(pos)
		}
		u.Obls[name] = o
		u.Ord = append(u.Ord, name)
	}
	q := &Query{Decls: append([]string(nil), s.Decls...), PC: append([]*Term(nil), s.PC...), Goal: goal}
	if goal.IsTrue() || s.Dead {
		q.Trivial = true
		q.Result = "trivial"
	}
	o.Queries = append(o.Queries, q)
	return q
}

// check asserts goal as an obligation at an instruction site and then assumes it
// (execution continues only on the non-panicking side).
func (u *Unit) check(s *State, kind string, instr ssa.Instruction, desc string, goal *Term) {
	fk := fnKey(s.top().Fn)
	if s.top().Inlined && u.V.VerifiedSeparately[fk] {
		// proved for all inputs in the callee's own unit (it has no precondition)
		s.assume(goal)
		return
	}
	name := u.siteName(fk, kind, instr, "")
	pos := token.NoPos
	if instr != nil {
		pos = instr.Pos()
	}
	u.oblige(s, name, kind, pos, desc, goal)
	s.assume(goal)
}

func (q *Query) SMT(prelude string) string {
	var sb strings.Builder
	sb.WriteString(prelude)
	for _, d := range q.Decls {
		sb.WriteString(d)
		sb.WriteByte('\n')
	}
	for _, p := range q.PC {
		sb.WriteString("(assert ")
		sb.WriteString(p.String())
		sb.WriteString(")\n")
	}
	sb.WriteString("(assert (not ")
	sb.WriteString(q.Goal.String())
	sb.WriteString("))\n(check-sat)\n")
	return sb.String()
}

func fnKey(fn *ssa.Function) string {
	if fn == nil {
		return "?"
	}
	if fn.Parent() != nil {
		// closure: parent key + $n
		name := fn.Name()
		if i := strings.LastIndex(name, "$"); i >= 0 {
			return fnKey(fn.Parent()) + name[i:]
		}
		return fnKey(fn.Parent()) + "$" + name
	}
	pkg := ""
	if fn.Pkg != nil {
		pkg = fn.Pkg.Pkg.Path()
	} else if fn.Object() != nil && fn.Object().Pkg() != nil {
		pkg = fn.Object().Pkg().Path()
	}
	if recv := fn.Signature.Recv(); recv != nil {
		t := recv.Type()
		star := ""
		if p, ok := t.(*types.Pointer); ok {
			star = "*"
			t = p.Elem()
		}
		name := t.String()
		if n, ok := t.(*types.Named); ok {
			name = n.Obj().Name()
			if n.Obj().Pkg() != nil {
				pkg = n.Obj().Pkg().Path()
			}
		}
		return pkg + ".(" + star + name + ")." + fn.Name()
	}
	return pkg + "." + fn.Name()
}

// sorted obligations
func (u *Unit) Obligations() []*Obligation {
	var out []*Obligation
	for _, n := range u.Ord {
		out = append(out, u.Obls[n])
	}
	sort.SliceStable(out, func(i, j int) bool { return out[i].Name < out[j].Name })
	return out
}

// declareInitialHeap declares the entry heap for a key together with the type invariant of the
// values it holds: every slice header / pointer / interface stored in memory at entry is
// well-formed and refers to memory allocated before entry (ref < alloc0).
func (u *Unit) declareInitialHeap(name, key string, elem types.Type) {
	if u.W.declared[name] {
		return
	}
	es := u.W.SortOf(elem)
	u.W.Declare(name, fmt.Sprintf("(declare-const %s %s)", name, u.heapSort(key, es)))
	if !needsWF(elem) {
		return
	}
	h := Leaf(name, u.heapSort(key, es))
	st := &State{Alloc: Leaf("alloc0", "Int")}
	r := Leaf("r!h", "Int")
	if strings.HasPrefix(key, "S:") {
		i := Leaf("i!h", "Int")
		e := Select(Select(h, r), i)
		ax := Forall([]*Term{r, i}, u.wf(st, elem, e), e)
		u.W.decls = append(u.W.decls, "(assert "+ax.String()+")")
	} else if strings.HasPrefix(key, "P:") {
		e := Select(h, r)
		ax := Forall([]*Term{r}, u.wf(st, elem, e), e)
		u.W.decls = append(u.W.decls, "(assert "+ax.String()+")")
	}
}

// havocHeap returns a fresh heap for key; the memory type invariant (stored slice headers,
// pointers and interfaces are well-formed and refer to memory allocated so far) is assumed of it.
// Call after s.Alloc has been advanced.
func (u *Unit) havocHeap(s *State, key string, old *Term) *Term {
	nh := u.fresh(s, "H_"+key, old.Sort)
	if strings.HasPrefix(key, "M:") {
		if mt := u.mapTypes[key]; mt != nil {
			mp := mt.Underlying().(*types.Map)
			od := u.optDT(mp.Elem())
			k := Leaf("k!m", u.W.SortOf(mp.Key()))
			s.assume(Forall([]*Term{k}, Not(Sel(od, 0, Select(Select(nh, IntLit(0)), k))), Select(Select(nh, IntLit(0)), k)))
		}
		return nh
	}
	if strings.HasPrefix(key, "ML:") {
		r := Leaf("r!m", "Int")
		s.assume(Eq(Select(nh, IntLit(0)), IntLit(0)))
		s.assume(Forall([]*Term{r}, Ge(Select(nh, r), IntLit(0)), Select(nh, r)))
		return nh
	}
	elem := u.heapElemTypes[key]
	if elem == nil || !needsWF(elem) {
		return nh
	}
	r := Leaf("r!h", "Int")
	if strings.HasPrefix(key, "S:") {
		i := Leaf("i!h", "Int")
		e := Select(Select(nh, r), i)
		s.assume(Forall([]*Term{r, i}, u.wf(s, elem, e), e))
	} else if strings.HasPrefix(key, "P:") {
		e := Select(nh, r)
		s.assume(Forall([]*Term{r}, u.wf(s, elem, e), e))
	}
	return nh
}

// callProbe: the path condition just before a callee contract is applied and just after its ensures
// are assumed. `before` satisfiable and `after` unsatisfiable means the contract (or its frame)
// contradicts what the caller knows: everything proved after that call would be vacuous.
type callProbe struct {
	Site   string
	Before *Query
	After  *Query
}

func (u *Unit) probeBefore(s *State, site string) *callProbe {
	if u.CallProbes == nil {
		u.CallProbes = map[string]*callProbe{}
	}
	if _, ok := u.CallProbes[site]; ok {
		return nil
	}
	p := &callProbe{Site: site, Before: &Query{Decls: append([]string(nil), s.Decls...), PC: append([]*Term(nil), s.PC...), Goal: False}}
	u.CallProbes[site] = p
	return p
}

func (u *Unit) probeAfter(s *State, p *callProbe) {
	if p == nil {
		return
	}
	p.After = &Query{Decls: append([]string(nil), s.Decls...), PC: append([]*Term(nil), s.PC...), Goal: False}
}

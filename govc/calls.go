package govc

import (
	"sort"
	"fmt"
	"go/token"
	"go/types"
	"math/big"
	"strings"

	"golang.org/x/tools/go/ssa"
)

type big_Float = big.Float

func (u *Unit) execCall(s *State, f *Frame, x *ssa.Call) []*State {
	c := x.Common()
	if u.C != nil && len(u.C.CallPre) > 0 && f.Fn == u.Fn {
		name := ""
		if c.IsInvoke() {
			name = c.Method.Name()
		} else if sf, ok := c.Value.(*ssa.Function); ok {
			name = sf.Name()
		}
		for i, cp := range u.C.CallPre {
			want := cp.Name
			if j := strings.Index(want, "#"); j > 0 {
				// `callpre F#3: E` — only the third call of F in the function (source order)
				if want[j+1:] != fmt.Sprint(u.callOrdinal(x, name)) {
					continue
				}
				want = want[:j]
			}
			if want == name {
				env := u.specEnv(s, f)
				for k, a := range c.Args {
					// arg0, arg1, ...: the arguments of this call (without the receiver)
					env.names[fmt.Sprintf("arg%d", k)] = u.val(s, f, a)
				}
				oname := fmt.Sprintf("%s#callpre.%s.%d", shortKey(fnKey(u.Fn)), sanitize(name), i+1)
				u.oblige(s, oname, "callpre", x.Pos(), "at every call of "+name+": "+cp.Text, u.evalBool(env, cp.E))
			}
		}
	}
	if c.IsInvoke() {
		return u.execInvoke(s, f, x)
	}
	var args []Value
	for _, a := range c.Args {
		args = append(args, u.val(s, f, a))
	}
	switch callee := c.Value.(type) {
	case *ssa.Builtin:
		return u.execBuiltin(s, f, x, callee, args)
	case *ssa.Function:
		return u.callFunction(s, f, x, callee, args, nil)
	case *ssa.MakeClosure:
		fn := callee.Fn.(*ssa.Function)
		var binds []Value
		for _, b := range callee.Bindings {
			binds = append(binds, u.val(s, f, b))
		}
		return u.callFunction(s, f, x, fn, args, binds)
	default:
		// call of a function value
		fv := u.val(s, f, c.Value)
		ft := u.term(s, fv)
		if cl, ok := u.closures[ft.Op]; ok {
			return u.callFunction(s, f, x, cl.Fn, args, cl.Binds)
		}
		u.check(s, "nil", x, "call of nil function value", Not(Eq(ft, IntLit(0))))
		if u.C == nil || !u.C.PureFuncs {
			// unknown function value: total (no panic) is assumed; it may write any memory
			u.Assumed["calls through function values ("+types.TypeString(c.Value.Type(), nil)+") do not panic (their effects are arbitrary)"] = true
			keep := map[string]*Term{}
			if u.C != nil && u.C.Opts != nil && u.C.Opts["funcsPreserve"] != "" {
				// assumption: the function values called here do not write these heaps
				for _, k := range strings.Split(u.C.Opts["funcsPreserve"], ",") {
					k = strings.TrimSpace(k)
					if h, ok := s.Heaps[k]; ok {
						keep[k] = h
					}
				}
				u.Assumed["function values called in "+shortKey(fnKey(u.Fn))+" do not write heaps "+u.C.Opts["funcsPreserve"]] = true
			}
			u.havocEffects(s, &effects{all: true, allocs: true, heaps: map[string]bool{}})
			for k, h := range keep {
				s.Heaps[k] = h
			}
			f.Vals[x] = u.symbolic(s, "r_fv", resultType(c.Value.Type().Underlying().(*types.Signature)))
			return nil
		}
		// uninterpreted pure total function of its arguments (assumption, listed)
		u.Assumed["function values ("+types.TypeString(c.Value.Type(), nil)+") are pure, total and deterministic"] = true
		sig := c.Value.Type().Underlying().(*types.Signature)
		res := sig.Results()
		mk := func(i int, t types.Type) Value {
			sorts := []string{"Int"}
			ts := []*Term{ft}
			for _, a := range args {
				at := u.term(s, a)
				sorts = append(sorts, at.Sort)
				ts = append(ts, at)
			}
			name := fmt.Sprintf("apply_%s_%d", sanitize(TypeKey(c.Value.Type())), i)
			r := u.W.UF(name, sorts, u.W.SortOf(t), ts...)
			if needsWF(t) {
				r = u.named(s, "fr", r)
				s.assume(u.wf(s, t, r))
			}
			return Value{T: r, Ty: t}
		}
		switch res.Len() {
		case 0:
			f.Vals[x] = Value{Ty: res}
		case 1:
			f.Vals[x] = mk(0, res.At(0).Type())
		default:
			var tup []Value
			for i := 0; i < res.Len(); i++ {
				tup = append(tup, mk(i, res.At(i).Type()))
			}
			f.Vals[x] = Value{Tup: tup, Ty: res}
		}
		return nil
	}
}

func (u *Unit) execBuiltin(s *State, f *Frame, x *ssa.Call, b *ssa.Builtin, args []Value) []*State {
	w := u.W
	switch b.Name() {
	case "len", "cap":
		a := args[0]
		at := u.term(s, a)
		var r *Term
		switch ut := a.Ty.Underlying().(type) {
		case *types.Slice:
			if b.Name() == "len" {
				r = w.SLen(at)
			} else {
				r = w.SCap(at)
			}
		case *types.Basic:
			r = w.StrLen(at)
		case *types.Array:
			r = IntLit(ut.Len())
		case *types.Map:
			r = u.mapLen(s, a)
		case *types.Pointer:
			if arr, ok := ut.Elem().Underlying().(*types.Array); ok {
				r = IntLit(arr.Len())
			}
		}
		if r == nil {
			u.unsup("len of %s", a.Ty)
		}
		f.Vals[x] = Value{T: u.fromInt(r, x.Type()), Ty: x.Type()}
		return nil
	case "append":
		return u.execAppend(s, f, x, args)
	case "copy":
		u.execCopy(s, f, x, args)
		return nil
	case "ssa:deferstack":
		f.Vals[x] = Value{T: IntLit(0), Ty: x.Type()}
		return nil
	case "ssa:wrapnilchk":
		f.Vals[x] = args[0]
		return nil
	case "min", "max":
		if isInteger(x.Type()) {
			r := u.term(s, args[0])
			for _, a := range args[1:] {
				at := u.term(s, a)
				if b.Name() == "min" {
					r = Ite(Lt(at, r), at, r)
				} else {
					r = Ite(Gt(at, r), at, r)
				}
			}
			f.Vals[x] = Value{T: r, Ty: x.Type()}
			return nil
		}
	case "delete":
		u.execMapDelete(s, f, x, args)
		return nil
	case "print", "println":
		return nil
	}
	u.unsup("builtin %s", b.Name())
	return nil
}

// append(s, t...) — forks on whether the result fits in cap(s).
func (u *Unit) execAppend(s *State, f *Frame, x *ssa.Call, args []Value) []*State {
	w := u.W
	sl := u.term(s, args[0])
	elem := x.Type().Underlying().(*types.Slice).Elem()
	var add *Term
	var addLen *Term
	var addIsStr bool
	if isString(args[1].Ty) {
		add = u.term(s, args[1])
		addLen = w.StrLen(add)
		addIsStr = true
	} else {
		add = u.term(s, args[1])
		addLen = w.SLen(add)
	}
	newLen := Add(w.SLen(sl), addLen)
	fits := Le(newLen, w.SCap(sl))
	// Go: append(s) with nothing to add returns s
	other := s.clone()
	// --- in place ---
	s.assume(fits)
	if !s.Dead {
		key, h := u.heap(s, "S", elem)
		if alv, ok := addLen.intVal(); ok && alv.IsInt64() && alv.Int64() <= 4 && !addIsStr {
			_, hsrc := u.heap(s, "S", elem)
			row := Select(h, w.SRef(sl))
			n := int(alv.Int64())
			for j := 0; j < n; j++ {
				idx := w.At(w.SOff(sl), Add(w.SLen(sl), IntLit(int64(j))))
				u.frameCheck(s, key, w.SRef(sl), idx, x)
				row = Store(row, idx, Select(Select(hsrc, w.SRef(add)), w.At(w.SOff(add), IntLit(int64(j)))))
			}
			if n > 0 {
				u.setHeap(s, key, Store(h, w.SRef(sl), row))
			}
		} else {
			nrow := u.fresh(s, "approw", ArraySort("Int", w.SortOf(elem)))
			k := Leaf("k!a", "Int")
			base := Add(w.SOff(sl), w.SLen(sl))
			var src *Term
			if addIsStr {
				src = Select(w.StrChars(add), Sub(k, base))
			} else {
				src = Select(Select(h, w.SRef(add)), Add(w.SOff(add), Sub(k, base)))
			}
			oldrow := Select(h, w.SRef(sl))
			s.assume(Forall([]*Term{k}, Eq(Select(nrow, k), Ite(And(Le(base, k), Lt(k, Add(base, addLen))), src, Select(oldrow, k))), Select(nrow, k)))
			u.frameCheckRange(s, key, w.SRef(sl), base, Add(base, addLen), x)
			// nil slice with nothing appended keeps ref 0: no write
			u.setHeap(s, key, Ite(Eq(addLen, IntLit(0)), h, Store(h, w.SRef(sl), nrow)))
		}
		f.Vals[x] = Value{T: w.MkSlice(w.SRef(sl), w.SOff(sl), newLen, w.SCap(sl)), Ty: x.Type()}
	}
	// --- reallocation ---
	other.assume(Not(fits))
	if other.Dead {
		if s.Dead {
			return nil
		}
		return nil
	}
	of := other.top()
	{
		st := other
		key, h := u.heap(st, "S", elem)
		u.allocCheckAppend(st, x, newLen)
		ref := u.allocRef(st)
		ncap := u.fresh(st, "cap", "Int")
		st.assume(And(Ge(ncap, newLen), Le(ncap, maxElems(elem))))
		// growing past the allocator's limit panics ("growslice: len out of range")
		u.check(st, "make", x, "append: growslice len out of range", Le(newLen, maxElems(elem)))
		nrow := u.fresh(st, "approw", ArraySort("Int", w.SortOf(elem)))
		k := Leaf("k!a", "Int")
		oldrow := Select(h, w.SRef(sl))
		var src *Term
		if addIsStr {
			src = Select(w.StrChars(add), Sub(k, w.SLen(sl)))
		} else {
			src = Select(Select(h, w.SRef(add)), w.At(w.SOff(add), Sub(k, w.SLen(sl))))
		}
		st.assume(Forall([]*Term{k}, Implies(And(Le(IntLit(0), k), Lt(k, newLen)),
			Eq(Select(nrow, k), Ite(Lt(k, w.SLen(sl)), Select(oldrow, w.At(w.SOff(sl), k)), src))), Select(nrow, k)))
		u.setHeap(st, key, Store(h, ref, nrow))
		of.Vals[x] = Value{T: w.MkSlice(ref, IntLit(0), newLen, ncap), Ty: x.Type()}
	}
	if s.Dead {
		// continue only with the reallocation path
		*s = *other
		return nil
	}
	return []*State{other}
}

func (u *Unit) frameCheckRange(s *State, key string, ref, lo, hi *Term, in ssa.Instruction) {
	if u.C == nil || !u.C.ModSet {
		return
	}
	// every index in [lo,hi) must be in frame: check with a universally quantified index
	k := u.fresh(s, "fk", "Int")
	goal := Implies(And(Le(lo, k), Lt(k, hi)), u.inFrame(s, key, ref, k))
	fk := fnKey(s.top().Fn)
	name := u.siteName(fk, "frame", in, "")
	u.oblige(s, name, "frame", in.Pos(), "write outside modifies clause ("+key+")", goal)
}

func (u *Unit) execCopy(s *State, f *Frame, x *ssa.Call, args []Value) {
	w := u.W
	dst := u.term(s, args[0])
	elem := args[0].Ty.Underlying().(*types.Slice).Elem()
	var srcLen *Term
	var srcAt func(k *Term) *Term
	key, h := u.heap(s, "S", elem)
	if isString(args[1].Ty) {
		st := u.term(s, args[1])
		srcLen = w.StrLen(st)
		srcAt = func(k *Term) *Term { return Select(w.StrChars(st), k) }
	} else {
		src := u.term(s, args[1])
		srcLen = w.SLen(src)
		srcAt = func(k *Term) *Term { return Select(Select(h, w.SRef(src)), Add(w.SOff(src), k)) }
	}
	n := u.named(s, "ncopy", Ite(Lt(w.SLen(dst), srcLen), w.SLen(dst), srcLen))
	nrow := u.fresh(s, "cprow", ArraySort("Int", w.SortOf(elem)))
	k := Leaf("k!c", "Int")
	oldrow := Select(h, w.SRef(dst))
	off := w.SOff(dst)
	s.assume(Forall([]*Term{k}, Eq(Select(nrow, k), Ite(And(Le(off, k), Lt(k, Add(off, n))), srcAt(Sub(k, off)), Select(oldrow, k))), Select(nrow, k)))
	u.frameCheckRange(s, key, w.SRef(dst), off, Add(off, n), x)
	u.setHeap(s, key, Ite(Eq(n, IntLit(0)), h, Store(h, w.SRef(dst), nrow)))
	f.Vals[x] = Value{T: n, Ty: x.Type()}
}

// ---------- calls to functions ----------

func (u *Unit) callFunction(s *State, f *Frame, x *ssa.Call, callee *ssa.Function, args []Value, binds []Value) []*State {
	key := fnKey(callee)
	if r, ok := u.mathCall(s, f, x, key, args); ok {
		f.Vals[x] = r
		return nil
	}
	c := u.V.contractFor(callee)
	// `opt inline=F,G` on the unit's contract: this unit executes the bodies of F and G instead of
	// using their contracts (their contract may be too thin for what this unit has to prove)
	wantInline := c != nil && c.Inline
	if u.C != nil && u.C.Opts != nil && callee.Blocks != nil {
		for _, n := range strings.Split(u.C.Opts["inline"], ",") {
			if n = strings.TrimSpace(n); n != "" && n == callee.Name() {
				wantInline = true
			}
		}
	}
	if c != nil && !wantInline {
		u.applyContract(s, f, x, callee, c, args)
		return nil
	}
	if callee.Blocks != nil && u.V.inRepo(callee) && (wantInline || u.V.inlinable(callee)) && len(s.Frames) < 12 && !u.onStack(s, callee) {
		u.Inlined[key] = true
		nf := &Frame{Fn: callee, Block: callee.Blocks[0], Vals: map[ssa.Value]Value{}, Cells: map[*ssa.Alloc]*Term{}, CallIn: x, Inlined: true}
		for i, p := range callee.Params {
			nf.Vals[p] = args[i]
		}
		for i, fv := range callee.FreeVars {
			if i < len(binds) {
				nf.Vals[fv] = binds[i]
			}
		}
		s.Frames = append(s.Frames, nf)
		return nil
	}
	// no contract, not inlinable: havoc per effects, arbitrary result
	u.havocCall(s, f, x, callee, args)
	return nil
}

func (u *Unit) onStack(s *State, fn *ssa.Function) bool {
	for _, fr := range s.Frames {
		if fr.Fn == fn {
			return true
		}
	}
	return false
}

func (u *Unit) havocCall(s *State, f *Frame, x *ssa.Call, callee *ssa.Function, args []Value) {
	key := fnKey(callee)
	// a method of an external struct type called through a nil pointer dereferences it
	if recv := callee.Signature.Recv(); recv != nil && len(args) > 0 && args[0].T != nil && !u.V.inRepo(callee) {
		if pt, ok := recv.Type().Underlying().(*types.Pointer); ok {
			if _, isStruct := pt.Elem().Underlying().(*types.Struct); isStruct {
				u.check(s, "nil", x, "method "+callee.Name()+" called on a nil "+types.TypeString(recv.Type(), nil), Not(Eq(args[0].T, IntLit(0))))
			}
		}
	}
	if callee.Blocks == nil || !u.V.inRepo(callee) {
		u.Assumed["external "+key+": total (no panic), arbitrary result, writes only memory reachable from its arguments"] = true
	} else {
		u.Uncontracted[key] = true
	}
	eff := u.V.effectsOfCallee(callee, map[*ssa.Function]bool{})
	u.havocEffects(s, eff)
	rv := u.symbolic(s, "r_"+callee.Name(), resultType(callee.Signature))
	if (key == "errors.New" || key == "fmt.Errorf") && rv.T != nil {
		// these constructors never return a nil error
		s.assume(Not(Eq(Sel(u.W.IfaceDT(), 0, rv.T), IntLit(0))))
	}
	f.Vals[x] = rv
}

func (u *Unit) havocEffects(s *State, eff *effects) {
	pre := s.Alloc
	if eff.allocs || eff.all {
		na := u.fresh(s, "alloc", "Int")
		s.assume(Ge(na, s.Alloc))
		s.Alloc = na
	}
	hav := func(k string) {
		u.ensureHeap(s, k)
		h, ok := s.Heaps[k]
		if !ok {
			return
		}
		s.Heaps[k] = u.havocHeap(s, k, h)
		_ = pre
	}
	if eff.all {
		s.DirtyAll = true
		s.DirtyNoFrame = true
		for k := range s.Heaps {
			hav(k)
		}
		for g, t := range s.Globals {
			if !u.V.isConstGlobal(g) {
				s.Globals[g] = u.fresh(s, "g_"+g.Name(), t.Sort)
			}
		}
		return
	}
	for k := range eff.heaps {
		hav(k)
	}
	if eff.globals {
		for g, t := range s.Globals {
			if !u.V.isConstGlobal(g) {
				s.Globals[g] = u.fresh(s, "g_"+g.Name(), t.Sort)
			}
		}
	}
}

type tupleHelper struct{}

func (u *Unit) resultsType(sig *types.Signature) types.Type {
	return sig.Results()
}

// applyContract: assert requires, havoc modifies, assume ensures.
func (u *Unit) applyContract(s *State, f *Frame, x ssa.Value, callee *ssa.Function, c *Contract, args []Value) {
	key := fnKey(callee)
	in, _ := x.(ssa.Instruction)
	if c.Trusted {
		u.Assumed["trusted contract "+key] = true
	}
	u.UsedContracts[key] = true
	env := &SpecEnv{u: u, s: s, names: map[string]Value{}, cf: u.V.contractFileOfKey(key)}
	for i, p := range callee.Params {
		if i < len(args) {
			env.names[p.Name()] = args[i]
			if i < len(c.Params) {
				env.names[c.Params[i]] = args[i]
			}
		}
	}
	// requires
	for i, r := range c.Requires {
		goal := u.evalBool(env, r.E)
		fk := fnKey(s.top().Fn)
		name := u.siteName(fk, "pre", in, fmt.Sprintf("%s.%d", shortName(key), i+1))
		pos := token.NoPos
		if in != nil {
			pos = in.Pos()
		}
		u.oblige(s, name, "pre", pos, "precondition of "+shortKey(key)+": "+r.Text, goal)
		s.assume(goal)
	}
	old := s.snap()
	probe := u.probeBefore(s, fmt.Sprintf("%s -> %s @%p", shortKey(fnKey(s.top().Fn)), shortKey(key), x))
	defer func() { u.probeAfter(s, probe) }()
	// frame: callee's modifies must be inside ours
	if u.C != nil && u.C.ModSet && !c.Pure {
		envOld := *env
		for _, m := range c.Modifies {
			loc := u.evalLoc(&envOld, m)
			if loc == nil {
				continue
			}
			var goal *Term
			if loc.lo != nil {
				k := u.fresh(s, "fk", "Int")
				goal = Implies(And(Le(loc.lo, k), Lt(k, loc.hi)), u.inFrame(s, loc.key, loc.ref, k))
			} else {
				goal = u.inFrame(s, loc.key, loc.ref, nil)
			}
			if loc.cond != nil {
				goal = Implies(loc.cond, goal)
			}
			fk := fnKey(s.top().Fn)
			name := u.siteName(fk, "frame", in, "")
			u.oblige(s, name, "frame", in.Pos(), "callee "+shortKey(key)+" modifies memory outside our modifies clause", goal)
		}
	}
	// havoc
	if !c.Pure {
		var eff *effects
		if callee.Blocks != nil && !c.Trusted {
			eff = u.V.effectsOf(callee, map[*ssa.Function]bool{})
		} else {
			eff = u.V.effectsOfCallee(callee, map[*ssa.Function]bool{})
		}
		u.havocPerModifies(s, env, c, eff)
		if eff.globals || eff.all {
			for g, t := range s.Globals {
				if !u.V.isConstGlobal(g) {
					s.Globals[g] = u.fresh(s, "g_"+g.Name(), t.Sort)
				}
			}
		}
	}
	// arguments that are addresses of fields (e.g. &v.maxHeap for a pointer-receiver method): the
	// callee may write through them; the pointed-to field gets an arbitrary well-formed value,
	// constrained afterwards by the callee's ensures over *param
	if !c.Pure {
		for _, a := range args {
			if a.P == nil || a.T != nil || a.P.Kind != PCell || len(a.P.Path) == 0 {
				continue
			}
			pt, ok := a.Ty.Underlying().(*types.Pointer)
			if !ok {
				continue
			}
			key, h := u.heap(s, "P", a.P.Elem)
			nv := u.fresh(s, "deref", u.W.SortOf(pt.Elem()))
			s.assume(u.wf(s, pt.Elem(), nv))
			if in != nil {
				u.frameCheck(s, key, a.P.Ref, nil, in)
			}
			u.setHeap(s, key, Store(h, a.P.Ref, u.updatePath(Select(h, a.P.Ref), a.P.Path, nv)))
		}
	}
	// results
	res := callee.Signature.Results()
	var rvals []Value
	for i := 0; i < res.Len(); i++ {
		rv := u.symbolic(s, "r_"+callee.Name(), res.At(i).Type())
		rvals = append(rvals, rv)
	}
	if c.Function && len(rvals) >= 1 {
		// deterministic pure function: each result is an uninterpreted function of the arguments and
		// of the memory reachable from them (same term for equal arguments and unchanged memory)
		fs := s
		if c.Allocates {
			// the function is applied to the memory as it was BEFORE the call (the call itself only adds
			// fresh objects), so that two calls on unchanged memory give the same term
			fs = &State{Heaps: map[string]*Term{}, Entry: s.Entry, Alloc: old.Alloc, Globals: s.Globals}
			for k, h := range old.Heaps {
				fs.Heaps[k] = h
			}
		}
		for i := range rvals {
			if ft := u.functionApp(fs, callee, args, i); ft != nil && rvals[i].T != nil && ft.Sort == rvals[i].T.Sort {
				s.assume(Eq(rvals[i].T, ft))
			}
		}
	}
	bindResults(env.names, callee, c, rvals)
	env.old = old
	env.oldNames = env.names
	for _, e := range c.Ensures {
		s.assume(u.evalBool(env, e.E))
	}
	if x != nil {
		switch len(rvals) {
		case 0:
			f.Vals[x] = Value{Ty: res}
		case 1:
			f.Vals[x] = rvals[0]
		default:
			f.Vals[x] = Value{Tup: rvals, Ty: res}
		}
	}
}

func shortName(key string) string {
	if i := strings.LastIndex(key, "/"); i >= 0 {
		key = key[i+1:]
	}
	return sanitize(key)
}

func bindResults(names map[string]Value, fn *ssa.Function, c *Contract, rvals []Value) {
	res := fn.Signature.Results()
	for i := 0; i < res.Len() && i < len(rvals); i++ {
		if n := res.At(i).Name(); n != "" && n != "_" {
			names[n] = rvals[i]
		}
		names[fmt.Sprintf("result%d", i)] = rvals[i]
		if c != nil && i < len(c.Results) {
			names[c.Results[i]] = rvals[i]
		}
	}
	if len(rvals) == 1 {
		names["result"] = rvals[0]
	}
}

// doReturn: postconditions (top frame) or pop an inlined frame.
func (u *Unit) doReturn(s *State, f *Frame, rv []Value, in ssa.Instruction) {
	if len(s.Frames) > 1 {
		caller := s.Frames[len(s.Frames)-2]
		s.Frames = s.Frames[:len(s.Frames)-1]
		if f.CallIn != nil {
			res := f.Fn.Signature.Results()
			switch len(rv) {
			case 0:
				caller.Vals[f.CallIn] = Value{Ty: res}
			case 1:
				caller.Vals[f.CallIn] = rv[0]
			default:
				caller.Vals[f.CallIn] = Value{Tup: rv, Ty: res}
			}
		}
		return
	}
	u.RetCount++
	fk := fnKey(u.Fn)
	if u.C != nil && len(u.C.RetWhen) > 0 {
		ord := u.returnOrdinal(in)
		env := u.specEnv(s, f)
		for i, rw := range u.C.RetWhen {
			if rw.Name == fmt.Sprint(ord) {
				name := fmt.Sprintf("%s#ret.%d.%d", shortKey(fk), ord, i+1)
				u.oblige(s, name, "ret", in.Pos(), fmt.Sprintf("return %d is taken only when: %s", ord, rw.Text), u.evalBool(env, rw.E))
			}
		}
	}
	if u.C != nil {
		env := u.specEnv(s, nil)
		bindResults(env.names, u.Fn, u.C, rv)
		for i, e := range u.C.Ensures {
			label := fmt.Sprint(i + 1)
			if e.Name != "" {
				label = e.Name
			}
			name := fmt.Sprintf("%s#post.%s", shortKey(fk), label)
			u.oblige(s, name, "post", in.Pos(), "ensures "+e.Text, u.evalBool(env, e.E))
		}
		if u.C.Pure {
			// no allocation and no heap change
			name := fmt.Sprintf("%s#frame.pure", shortKey(fk))
			same := []*Term{Eq(s.Alloc, s.Entry.Alloc)}
			for k, h := range s.Heaps {
				if h0, ok := s.Entry.Heaps[k]; ok && h0 != h {
					same = append(same, Eq(h, h0))
				}
			}
			u.oblige(s, name, "frame", in.Pos(), "pure: no allocation, heap unchanged", And(same...))
		}
	}
	// vacuity canary: this return must be reachable
	q := &Query{Decls: append([]string(nil), s.Decls...), PC: append([]*Term(nil), s.PC...), Goal: False}
	u.Canaries = append(u.Canaries, q)
	s.Frames = nil
}

// ---------- interface method calls ----------

func (u *Unit) execInvoke(s *State, f *Frame, x *ssa.Call) []*State {
	w := u.W
	c := x.Common()
	recv := u.term(s, u.val(s, f, c.Value))
	tag := Sel(w.IfaceDT(), 0, recv)
	u.check(s, "nil", x, "method call on nil interface ("+c.Method.Name()+")", Not(Eq(tag, IntLit(0))))
	var args []Value
	for _, a := range c.Args {
		args = append(args, u.val(s, f, a))
	}
	// interface-level contract?
	if ic := u.V.ifaceContract(c.Value.Type(), c.Method.Name()); ic != nil {
		u.applyIfaceContract(s, f, x, ic, recv, c, args)
		return nil
	}
	impls := u.V.implementerTypes(c.Value.Type())
	if len(impls) == 0 || len(impls) > 12 {
		// open interface (error, io.Reader, ...): assumed total with arbitrary result
		u.Assumed["interface method "+types.TypeString(c.Value.Type(), nil)+"."+c.Method.Name()+": total, arbitrary result, writes only memory reachable from its arguments"] = true
		eff := &effects{heaps: map[string]bool{}, allocs: true}
		for _, a := range c.Args {
			addReachable(a.Type(), eff.heaps, map[string]bool{}, 0)
		}
		u.havocEffects(s, eff)
		f.Vals[x] = u.symbolic(s, "r_"+c.Method.Name(), resultType(c.Signature()))
		return nil
	}
	// closed interface: fork over the implementers in /repo
	var forks []*State
	var states []*State
	for i, t := range impls {
		st := s
		if i < len(impls)-1 {
			st = s.clone()
		}
		states = append(states, st)
		_ = t
	}
	// exhaustiveness: the dynamic type is one of the known implementers (for orb.Geometry this is validGeom)
	var alts []*Term
	for _, t := range impls {
		alts = append(alts, Eq(tag, IntLit(int64(w.TypeID(t)))))
	}
	if u.V.openWorld(c.Value.Type()) {
		u.check(s, "dyn", x, "dynamic type of "+types.TypeString(c.Value.Type(), nil)+" is a known implementer", Or(alts...))
	}
	for i, t := range impls {
		st := states[i]
		sf := st.top()
		st.assume(Eq(tag, IntLit(int64(w.TypeID(t)))))
		if st.Dead {
			continue
		}
		m := u.V.methodOf(t, c.Method)
		if m == nil {
			u.unsup("no method %s on %s", c.Method.Name(), t)
		}
		rv := Value{T: u.unbox(st, recv, t), Ty: t}
		if needsWF(t) {
			rv.T = u.named(st, "recv", rv.T)
			st.assume(u.wf(st, t, rv.T))
		}
		more := u.callFunction(st, sf, x, m, append([]Value{rv}, args...), nil)
		forks = append(forks, more...)
		if st != s {
			forks = append(forks, st)
		}
	}
	if s.Dead {
		// s was the last implementer and infeasible
	}
	return forks
}

func (u *Unit) applyIfaceContract(s *State, f *Frame, x *ssa.Call, ic *Contract, recv *Term, c *ssa.CallCommon, args []Value) {
	env := &SpecEnv{u: u, s: s, names: map[string]Value{}, cf: u.V.contractFileOfKey(ic.Key)}
	all := append([]Value{{T: recv, Ty: c.Value.Type()}}, args...)
	for i, n := range ic.Params {
		if i < len(all) {
			env.names[n] = all[i]
		}
	}
	for i, r := range ic.Requires {
		goal := u.evalBool(env, r.E)
		name := u.siteName(fnKey(s.top().Fn), "pre", x, fmt.Sprintf("%s.%d", shortName(ic.Key), i+1))
		u.oblige(s, name, "pre", x.Pos(), "precondition of "+ic.Key+": "+r.Text, goal)
		s.assume(goal)
	}
	u.Assumed["interface contract "+ic.Key+" (proved for every in-repo implementer separately)"] = true
	old := s.snap()
	probe := u.probeBefore(s, fmt.Sprintf("%s -> %s @%p", shortKey(fnKey(s.top().Fn)), ic.Key, x))
	defer func() { u.probeAfter(s, probe) }()
	if !ic.Pure {
		eff := &effects{heaps: map[string]bool{}, allocs: true}
		if ic.ModSet {
			// only what the modifies clause names (plus fresh memory)
			u.havocPerModifies(s, env, ic, eff)
		} else {
			// no modifies clause: no frame. For an interface whose implementers are all in /repo the
			// possible writes are those of the implementers' methods (effect analysis); otherwise
			// whatever is reachable from the arguments (assumption, listed).
			impls := u.V.implementerTypes(c.Value.Type())
			if len(impls) > 0 && len(impls) <= 12 {
				for _, t := range impls {
					if m := u.V.methodOf(t, c.Method); m != nil {
						u.V.mergeEffects(eff, u.V.effectsOf(m, map[*ssa.Function]bool{}))
					}
				}
			} else {
				u.Assumed["interface method "+types.TypeString(c.Value.Type(), nil)+"."+c.Method.Name()+" writes only memory reachable from its arguments"] = true
			}
			for _, a := range c.Args {
				addReachable(a.Type(), eff.heaps, map[string]bool{}, 0)
			}
			u.havocEffects(s, eff)
		}
	}
	res := c.Signature().Results()
	var rvals []Value
	for i := 0; i < res.Len(); i++ {
		rvals = append(rvals, u.symbolic(s, "r_"+c.Method.Name(), res.At(i).Type()))
	}
	for i, n := range ic.Results {
		if i < len(rvals) {
			env.names[n] = rvals[i]
		}
	}
	if len(rvals) == 1 {
		env.names["result"] = rvals[0]
	}
	env.old = old
	env.oldNames = env.names
	for _, e := range ic.Ensures {
		s.assume(u.evalBool(env, e.E))
	}
	switch len(rvals) {
	case 0:
		f.Vals[x] = Value{Ty: res}
	case 1:
		f.Vals[x] = rvals[0]
	default:
		f.Vals[x] = Value{Tup: rvals, Ty: res}
	}
}

// functionApp builds UF_f_i(args..., heaps reachable from the parameter types...).
func (u *Unit) functionApp(s *State, callee *ssa.Function, args []Value, resIdx int) *Term {
	sig := callee.Signature
	var ts []*Term
	var sorts []string
	for _, a := range args {
		if a.T == nil {
			return nil
		}
		ts = append(ts, a.T)
		sorts = append(sorts, a.T.Sort)
	}
	reach := map[string]types.Type{}
	if sig.Recv() != nil {
		reachableHeapTypes(sig.Recv().Type(), reach, 0)
	}
	for i := 0; i < sig.Params().Len(); i++ {
		reachableHeapTypes(sig.Params().At(i).Type(), reach, 0)
	}
	var keys []string
	for k := range reach {
		keys = append(keys, k)
	}
	sortStrings(keys)
	for _, k := range keys {
		_, h := u.heap(s, k[:1], reach[k])
		ts = append(ts, h)
		sorts = append(sorts, h.Sort)
	}
	rt := sig.Results().At(resIdx).Type()
	name := fmt.Sprintf("fn_%s_%d", sanitize(shortKey(fnKey(callee))), resIdx)
	t := u.W.UF(name, sorts, u.W.SortOf(rt), ts...)
	u.functionRowFrame(name, callee, args, sorts, keys, reach)
	return t
}

// functionRowFrame: a `function` can only read memory reachable from its arguments. For the simple
// shape "every reference-carrying parameter is a slice of reference-free elements" that means: if two
// heaps agree on the ROW of each such slice, the results agree (whatever else was written elsewhere).
// Emitted once per function as an axiom over pairs of applications (trusted base: stated there).
func (u *Unit) functionRowFrame(name string, callee *ssa.Function, args []Value, sorts []string, keys []string, reach map[string]types.Type) {
	if u.W.declared[name+"!rowframe"] || len(keys) == 0 {
		return
	}
	sig := callee.Signature
	var ptypes []types.Type
	if sig.Recv() != nil {
		ptypes = append(ptypes, sig.Recv().Type())
	}
	for i := 0; i < sig.Params().Len(); i++ {
		ptypes = append(ptypes, sig.Params().At(i).Type())
	}
	if len(ptypes) != len(args) {
		return
	}
	sliceKey := map[int]string{}
	used := map[string]bool{}
	for i, pt := range ptypes {
		r := map[string]types.Type{}
		reachableHeapTypes(pt, r, 0)
		if len(r) == 0 {
			continue
		}
		sl, ok := pt.Underlying().(*types.Slice)
		if !ok || len(r) != 1 {
			return // a pointer, interface or nested slice parameter: no row frame
		}
		k := "S:" + TypeKey(sl.Elem())
		if _, ok := r[k]; !ok {
			return
		}
		sliceKey[i] = k
		used[k] = true
	}
	for _, k := range keys {
		if !used[k] {
			return
		}
	}
	var binders, a, b, hyps []string
	for i := range args {
		n := fmt.Sprintf("x!%d", i)
		binders = append(binders, fmt.Sprintf("(%s %s)", n, sorts[i]))
		a = append(a, n)
		b = append(b, n)
	}
	hname := map[string][2]string{}
	for j, k := range keys {
		h1, h2 := fmt.Sprintf("h1!%d", j), fmt.Sprintf("h2!%d", j)
		hs := sorts[len(args)+j]
		binders = append(binders, fmt.Sprintf("(%s %s)", h1, hs), fmt.Sprintf("(%s %s)", h2, hs))
		a = append(a, h1)
		b = append(b, h2)
		hname[k] = [2]string{h1, h2}
	}
	for i, k := range sliceKey {
		hyps = append(hyps, fmt.Sprintf("(= (select %s (s_ref x!%d)) (select %s (s_ref x!%d)))", hname[k][0], i, hname[k][1], i))
	}
	sort.Strings(hyps)
	app1 := fmt.Sprintf("(%s %s)", name, strings.Join(a, " "))
	app2 := fmt.Sprintf("(%s %s)", name, strings.Join(b, " "))
	hyp := hyps[0]
	if len(hyps) > 1 {
		hyp = "(and " + strings.Join(hyps, " ") + ")"
	}
	u.W.Declare(name+"!rowframe", fmt.Sprintf("(assert (forall (%s) (! (=> %s (= %s %s)) :pattern (%s %s))))", strings.Join(binders, " "), hyp, app1, app2, app1, app2))
}

// reachableHeapTypes: S- and P-heaps (with their element types) reachable from a value of type t.
func reachableHeapTypes(t types.Type, out map[string]types.Type, depth int) {
	if depth > 5 {
		return
	}
	switch u := t.Underlying().(type) {
	case *types.Slice:
		k := "S:" + TypeKey(u.Elem())
		if _, ok := out[k]; !ok {
			out[k] = u.Elem()
			reachableHeapTypes(u.Elem(), out, depth+1)
		}
	case *types.Pointer:
		if a, ok := u.Elem().Underlying().(*types.Array); ok {
			k := "S:" + TypeKey(a.Elem())
			if _, ok := out[k]; !ok {
				out[k] = a.Elem()
				reachableHeapTypes(a.Elem(), out, depth+1)
			}
		} else {
			k := "P:" + TypeKey(u.Elem())
			if _, ok := out[k]; !ok {
				out[k] = u.Elem()
				reachableHeapTypes(u.Elem(), out, depth+1)
			}
		}
	case *types.Struct:
		for i := 0; i < u.NumFields(); i++ {
			reachableHeapTypes(u.Field(i).Type(), out, depth+1)
		}
	case *types.Array:
		reachableHeapTypes(u.Elem(), out, depth+1)
	}
}

// havocPerModifies: advance the allocation counter, give every heap the callee may touch a fresh
// value, and assume the frame: memory that existed before the call and is not named by the
// contract's modifies clause is unchanged.
func (u *Unit) havocPerModifies(s *State, env *SpecEnv, c *Contract, eff *effects) {
	preAlloc := s.Alloc
	na := u.fresh(s, "alloc", "Int")
	s.assume(Ge(na, s.Alloc))
	s.Alloc = na
	var locs []*specLoc
	for _, m := range c.Modifies {
		if loc := u.evalLoc(env, m); loc != nil {
			locs = append(locs, loc)
		}
	}
	keys := map[string]bool{}
	if eff.all {
		s.DirtyAll = true
		if c.ModSet || c.External {
			s.DirtyFrames = append(s.DirtyFrames, &dirtyFrame{pre: preAlloc, locs: locs})
		} else {
			s.DirtyNoFrame = true
		}
		for k := range s.Heaps {
			keys[k] = true
		}
	} else {
		for k := range eff.heaps {
			keys[k] = true
		}
	}
	for _, l := range locs {
		keys[l.key] = true
	}
	// a contract WITHOUT a modifies clause says nothing about the frame: the callee's body is not
	// frame-checked, so the caller may not assume any pre-existing memory of the heaps it can write
	// is unchanged (pure/function/modifies-nothing contracts are checked in the callee). Assumed
	// contracts of functions outside /repo keep the frame they state.
	frameKnown := c.ModSet || c.External
	for k := range keys {
		u.ensureHeap(s, k)
		h, ok := s.Heaps[k]
		if !ok {
			continue
		}
		nh := u.havocHeap(s, k, h)
		if !frameKnown {
			s.Heaps[k] = nh
			continue
		}
		// frame assumption: pre-existing memory outside the modifies locations is unchanged
		r := Leaf("r!m", "Int")
		cond := Lt(r, preAlloc)
		var partial []*specLoc
		for _, l := range locs {
			if l.key == k {
				if l.cond != nil {
					cond = And(cond, Not(And(l.cond, Eq(r, l.ref))))
				} else {
					cond = And(cond, Not(Eq(r, l.ref)))
				}
				if l.lo != nil {
					partial = append(partial, l)
				}
			}
		}
		s.assume(Forall([]*Term{r}, Implies(cond, Eq(Select(nh, r), Select(h, r))), Select(nh, r)))
		for _, l := range partial {
			if strings.HasPrefix(k, "S:") {
				kk := Leaf("k!m", "Int")
				s.assume(Forall([]*Term{kk}, Implies(Not(And(Le(l.lo, kk), Lt(kk, l.hi))),
					Eq(Select(Select(nh, l.ref), kk), Select(Select(h, l.ref), kk))), Select(Select(nh, l.ref), kk)))
			}
		}
		s.Heaps[k] = nh
	}
}

// returnOrdinal: 1-based position of a return statement among the function's returns, in source order.
func (u *Unit) returnOrdinal(in ssa.Instruction) int {
	var rets []ssa.Instruction
	for _, b := range u.Fn.Blocks {
		for _, x := range b.Instrs {
			if _, ok := x.(*ssa.Return); ok {
				rets = append(rets, x)
			}
		}
	}
	key := func(x ssa.Instruction) int {
		if !x.Pos().IsValid() {
			return 1 << 40 // the implicit return at the end of a function without results comes last
		}
		return int(x.Pos())
	}
	sort.SliceStable(rets, func(i, j int) bool { return key(rets[i]) < key(rets[j]) })
	for i, r := range rets {
		if r == in {
			return i + 1
		}
	}
	return 0
}

// callOrdinal: 1-based position of a call instruction among the calls of the same callee/method name
// in the unit's function, in source order.
func (u *Unit) callOrdinal(x *ssa.Call, name string) int {
	var calls []*ssa.Call
	for _, b := range u.Fn.Blocks {
		for _, in := range b.Instrs {
			c, ok := in.(*ssa.Call)
			if !ok {
				continue
			}
			n := ""
			if c.Common().IsInvoke() {
				n = c.Common().Method.Name()
			} else if sf, ok := c.Common().Value.(*ssa.Function); ok {
				n = sf.Name()
			}
			if n == name {
				calls = append(calls, c)
			}
		}
	}
	sort.SliceStable(calls, func(i, j int) bool { return calls[i].Pos() < calls[j].Pos() })
	for i, c := range calls {
		if c == x {
			return i + 1
		}
	}
	return 0
}

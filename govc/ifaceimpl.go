package govc

import (
	"fmt"
	"go/types"
	"time"

	"golang.org/x/tools/go/ssa"
)

// VerifyIfaceContract checks that every in-repo implementer's contract refines the contract
// written on the interface method:  ifaceRequires ==> implRequires  and  implEnsures ==> ifaceEnsures
// (and an interface-level `pure` needs a `pure` implementer).
func (v *Verifier) VerifyIfaceContract(key string, so *SolveOpts) *UnitResult {
	start := time.Now()
	res := &UnitResult{Key: "iface:" + key}
	u := &Unit{V: v, W: NewWorld(FloatIEEE), Obls: map[string]*Obligation{}, siteNames: map[string]string{}, kindCount: map[string]int{},
		Inlined: map[string]bool{}, Assumed: map[string]bool{}, Uncontracted: map[string]bool{}, UsedContracts: map[string]bool{},
		closures: map[string]*closureVal{}, specDefs: map[string]*specDef{}, heapElemTypes: map[string]types.Type{}, globalInit: map[*ssa.Global]*Term{},
		ParamVals: map[string]Value{}}
	res.Unit = u
	fail := func(msg string) *UnitResult {
		res.Refused = msg
		res.Obligations = []*Obligation{{Name: "iface:" + shortKey(key), Kind: "iface", Desc: msg, Queries: []*Query{{Goal: False, Result: "unknown", Backend: "generator"}}}}
		return res
	}
	var ic *Contract
	var icf *ContractFile
	for _, cf := range v.Contracts {
		if c, ok := cf.Contracts[key]; ok {
			ic, icf = c, cf
		}
	}
	if ic == nil {
		return fail("STALE-CONTRACT: no interface contract " + key)
	}
	if ic.FloatsSet {
		u.W = NewWorld(ic.Floats)
	}
	u.Pkg = v.SSAPkgs[icf.PkgPath]
	// locate the interface type and method
	var iface types.Type
	var method *types.Func
	sc := u.Pkg.Pkg.Scope()
	for _, name := range sc.Names() {
		tn, ok := sc.Lookup(name).(*types.TypeName)
		if !ok {
			continue
		}
		it, ok := tn.Type().Underlying().(*types.Interface)
		if !ok {
			continue
		}
		for i := 0; i < it.NumMethods(); i++ {
			m := it.Method(i)
			if icf.PkgPath+".("+tn.Name()+")."+m.Name() == key {
				iface, method = tn.Type(), m
			}
		}
	}
	if iface == nil {
		return fail("STALE-CONTRACT: interface method not found for " + key)
	}
	var out *UnitResult
	func() {
		defer func() {
			if r := recover(); r != nil {
				if ue, ok := r.(unsupportedErr); ok {
					out = fail(string(ue))
					return
				}
				panic(r)
			}
		}()
		for _, t := range v.implementerTypes(iface) {
			impl := v.methodOf(t, method)
			if impl == nil {
				continue
			}
			c := v.contractFor(impl)
			tname := types.TypeString(t, func(p *types.Package) string { return p.Name() })
			s := &State{Heaps: map[string]*Term{}, Globals: map[*ssa.Global]*Term{}}
			u.W.Declare("alloc0", "(declare-const alloc0 Int)")
			s.Alloc = Leaf("alloc0", "Int")
			s.assume(Gt(s.Alloc, IntLit(0)))
			s.Entry = &snapshot{Heaps: map[string]*Term{}, Alloc: s.Alloc}
			// the receiver and arguments
			recv := u.symbolic(s, "p_recv", t)
			g := Value{T: u.makeIface(s, recv, t), Ty: iface}
			sig := method.Type().(*types.Signature)
			vals := []Value{g}
			implVals := []Value{recv}
			for i := 0; i < sig.Params().Len(); i++ {
				a := u.symbolic(s, fmt.Sprintf("p_arg%d", i), sig.Params().At(i).Type())
				vals = append(vals, a)
				implVals = append(implVals, a)
			}
			ienv := &SpecEnv{u: u, s: s, names: map[string]Value{}, cf: icf, pkg: u.Pkg.Pkg}
			for i, n := range ic.Params {
				if i < len(vals) {
					ienv.names[n] = vals[i]
				}
			}
			for _, r := range ic.Requires {
				s.assume(u.evalBool(ienv, r.E))
			}
			if c == nil {
				if len(ic.Ensures) > 0 || ic.Pure {
					u.oblige(s, fmt.Sprintf("iface:%s/%s#contract", shortKey(key), tname), "iface", 0, "implementer has no contract to refine the interface contract", False)
				}
				continue
			}
			menv := &SpecEnv{u: u, s: s, names: map[string]Value{}, cf: v.contractFileFor(impl), pkg: impl.Pkg.Pkg}
			for i, p := range impl.Params {
				if i < len(implVals) {
					menv.names[p.Name()] = implVals[i]
					if i < len(c.Params) {
						menv.names[c.Params[i]] = implVals[i]
					}
				}
			}
			for i, r := range c.Requires {
				if ic.Opts != nil && ic.Opts["implrequires"] == "assume" {
					u.Assumed["implementers' own preconditions ("+tname+": "+r.Text+") are assumed at calls through "+shortKey(key)] = true
					continue
				}
				u.oblige(s, fmt.Sprintf("iface:%s/%s#pre.%d", shortKey(key), tname, i+1), "iface", 0,
					"interface requires imply implementer requires: "+r.Text, u.evalBool(menv, r.E))
			}
			if ic.Pure && !c.Pure {
				u.oblige(s, fmt.Sprintf("iface:%s/%s#pure", shortKey(key), tname), "iface", 0, "interface contract is pure but implementer contract is not", False)
			}
			// result
			rs := sig.Results()
			var rvals []Value
			for i := 0; i < rs.Len(); i++ {
				rvals = append(rvals, u.symbolic(s, "r_result", rs.At(i).Type()))
			}
			bindResults(menv.names, impl, c, rvals)
			for i, n := range ic.Results {
				if i < len(rvals) {
					ienv.names[n] = rvals[i]
				}
			}
			if len(rvals) == 1 {
				ienv.names["result"] = rvals[0]
			}
			menv.old, menv.oldNames = s.Entry, menv.names
			ienv.old, ienv.oldNames = s.Entry, ienv.names
			for _, r := range c.Requires {
				s.assume(u.evalBool(menv, r.E))
			}
			for _, e := range c.Ensures {
				s.assume(u.evalBool(menv, e.E))
			}
			for i, e := range ic.Ensures {
				u.oblige(s, fmt.Sprintf("iface:%s/%s#post.%d", shortKey(key), tname, i+1), "iface", 0,
					"implementer ensures imply interface ensures: "+e.Text, u.evalBool(ienv, e.E))
			}
			if len(ic.Ensures) == 0 && len(c.Requires) == 0 {
				u.oblige(s, fmt.Sprintf("iface:%s/%s#ok", shortKey(key), tname), "iface", 0, "implementer contract refines the interface contract", True)
			}
		}
	}()
	if out != nil {
		return out
	}
	obls := u.Obligations()
	SolveAll(obls, u.W.Prelude(), so)
	res.Obligations = obls
	res.Seconds = time.Since(start).Seconds()
	res.CanaryOK = 1
	return res
}

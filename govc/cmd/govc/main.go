package main

import (
	"flag"
	"fmt"
	"os"
	"sort"
	"strings"
	"time"

	"govc"
)

func main() {
	if len(os.Args) < 2 {
		fmt.Fprintln(os.Stderr, "usage: govc func|prop ...")
		os.Exit(2)
	}
	switch os.Args[1] {
	case "func":
		cmdFunc(os.Args[2:])
	case "prop":
		os.Exit(govc.RunProperty(os.Args[2:]))
	case "list":
		cmdList(os.Args[2:])
	default:
		fmt.Fprintln(os.Stderr, "unknown command")
		os.Exit(2)
	}
}

func cmdList(args []string) {
	v, err := govc.Load("/repo", "./...")
	if err != nil {
		fmt.Fprintln(os.Stderr, err)
		os.Exit(2)
	}
	var keys []string
	for k := range v.AllFuncKeys() {
		if len(args) == 0 || strings.Contains(k, args[0]) {
			keys = append(keys, k)
		}
	}
	sort.Strings(keys)
	for _, k := range keys {
		fmt.Println(k)
	}
}

func cmdFunc(args []string) {
	fs := flag.NewFlagSet("func", flag.ExitOnError)
	verbose := fs.Bool("v", false, "verbose")
	term := fs.Bool("term", false, "termination obligations")
	nocand := fs.Bool("nocand", false, "no inferred candidates")
	safety := fs.Bool("safety", false, "safety only")
	timeout := fs.Duration("t", 10*time.Second, "per-query timeout")
	dump := fs.String("dump", "", "dump SMT of obligation matching substring")
	fs.Parse(args)
	v, err := govc.Load("/repo", "./...")
	if err != nil {
		fmt.Fprintln(os.Stderr, err)
		os.Exit(2)
	}
	dir, _ := os.MkdirTemp("", "govc")
	defer os.RemoveAll(dir)
	so := &govc.SolveOpts{Dir: dir, Timeout: *timeout, FirstTry: 2 * time.Second, Workers: 16, WantModel: true}
	for _, key := range fs.Args() {
		fn := v.FuncByKey(key)
		if fn == nil {
			fmt.Fprintf(os.Stderr, "no function %s\n", key)
			continue
		}
		res := v.VerifyFunc(fn, govc.UnitOpts{WantTerm: *term, UseCands: !*nocand, SafetyOnly: *safety}, so)
		res.Dump(os.Stdout, *verbose)
		if *dump != "" {
			for _, o := range res.Obligations {
				if strings.Contains(o.Name, *dump) {
					for i, q := range o.Queries {
						fmt.Printf(";;;; %s query %d: %s\n%s\n", o.Name, i, q.Result, q.SMT(res.Unit.W.Prelude()))
					}
				}
			}
		}
	}
}

package main

import (
	"flag"
	"fmt"
	"os"
	"sort"
	"strings"
	"time"

	"govc"
)

func main() {
	if len(os.Args) < 2 {
		fmt.Fprintln(os.Stderr, "usage: govc func|prop ...")
		os.Exit(2)
	}
	switch os.Args[1] {
	case "func":
		cmdFunc(os.Args[2:])
	case "prop":
		os.Exit(govc.RunProperty(os.Args[2:]))
	case "list":
		cmdList(os.Args[2:])
	case "sweep":
		cmdSweep(os.Args[2:])
	case "replay":
		if len(os.Args) < 3 {
			fmt.Fprintln(os.Stderr, "usage: govc replay <file>")
			os.Exit(2)
		}
		os.Exit(govc.RunReplayFile(os.Args[2]))
	case "fold":
		// govc fold <package path> <spec function>: prove the fold (extensionality) lemma of a `specfold`
		v, err := govc.Load(repoDir(), "./...")
		if err != nil {
			fmt.Fprintln(os.Stderr, err)
			os.Exit(2)
		}
		dir, _ := os.MkdirTemp("", "govc")
		defer os.RemoveAll(dir)
		so := &govc.SolveOpts{Dir: dir, Timeout: 30 * time.Second, FirstTry: 2 * time.Second, Workers: 16, WantModel: true}
		cf := v.Contracts[os.Args[2]]
		if cf == nil {
			fmt.Fprintln(os.Stderr, "no contract file for package", os.Args[2])
			os.Exit(2)
		}
		res := v.ProveFoldLemma(os.Args[3], cf, govc.FloatAbstract, so)
		res.Dump(os.Stdout, true)
		if len(os.Args) > 4 {
			for _, o := range res.Obligations {
				for _, q := range o.Queries {
					fmt.Println(q.SMT(res.Unit.W.Prelude()))
				}
			}
		}
	case "eff":
		v, err := govc.Load(repoDir(), "./...")
		if err != nil {
			fmt.Fprintln(os.Stderr, err)
			os.Exit(2)
		}
		for _, k := range os.Args[2:] {
			fmt.Println(k, v.EffectsString(k))
		}
	default:
		fmt.Fprintln(os.Stderr, "unknown command")
		os.Exit(2)
	}
}

func cmdList(args []string) {
	v, err := govc.Load(repoDir(), "./...")
	if err != nil {
		fmt.Fprintln(os.Stderr, err)
		os.Exit(2)
	}
	var keys []string
	for k := range v.AllFuncKeys() {
		if len(args) == 0 || strings.Contains(k, args[0]) {
			keys = append(keys, k)
		}
	}
	sort.Strings(keys)
	for _, k := range keys {
		fmt.Println(k)
	}
}

func cmdFunc(args []string) {
	fs := flag.NewFlagSet("func", flag.ExitOnError)
	verbose := fs.Bool("v", false, "verbose")
	term := fs.Bool("term", false, "termination obligations")
	nocand := fs.Bool("nocand", false, "no inferred candidates")
	safety := fs.Bool("safety", false, "safety only")
	timeout := fs.Duration("t", 10*time.Second, "per-query timeout")
	dump := fs.String("dump", "", "dump SMT of obligation matching substring")
	fs.Parse(args)
	v, err := govc.Load(repoDir(), "./...")
	if err != nil {
		fmt.Fprintln(os.Stderr, err)
		os.Exit(2)
	}
	dir, _ := os.MkdirTemp("", "govc")
	defer os.RemoveAll(dir)
	so := &govc.SolveOpts{Dir: dir, Timeout: *timeout, FirstTry: 2 * time.Second, Workers: 16, WantModel: true}
	for _, key := range fs.Args() {
		fn := v.FuncByKey(key)
		if fn == nil {
			fmt.Fprintf(os.Stderr, "no function %s\n", key)
			continue
		}
		res := v.VerifyFunc(fn, govc.UnitOpts{WantTerm: *term, UseCands: !*nocand, SafetyOnly: *safety}, so)
		res.Dump(os.Stdout, *verbose)
		if *dump != "" {
			for _, o := range res.Obligations {
				if strings.Contains(o.Name, *dump) {
					for i, q := range o.Queries {
						fmt.Printf(";;;; %s query %d: %s\n%s\n", o.Name, i, q.Result, q.SMT(res.Unit.W.Prelude()))
					}
				}
			}
		}
	}
}

func cmdSweep(args []string) {
	v, err := govc.Load(repoDir(), "./...")
	if err != nil {
		fmt.Fprintln(os.Stderr, err)
		os.Exit(2)
	}
	dir, _ := os.MkdirTemp("", "govc")
	defer os.RemoveAll(dir)
	so := &govc.SolveOpts{Dir: dir, Timeout: 5 * time.Second, FirstTry: 2 * time.Second, Workers: 4, WantModel: false}
	var keys []string
	for k := range v.AllFuncKeys() {
		if len(args) == 0 || strings.Contains(k, args[0]) {
			keys = append(keys, k)
		}
	}
	sort.Strings(keys)
	type out struct {
		key string
		txt string
	}
	res := make([]string, len(keys))
	sem := make(chan struct{}, 6)
	done := make(chan int, len(keys))
	for i, k := range keys {
		i, k := i, k
		sem <- struct{}{}
		go func() {
			defer func() { <-sem; done <- i }()
			defer func() {
				if r := recover(); r != nil {
					res[i] = fmt.Sprintf("%s: PANIC %v", k, r)
				}
			}()
			r := v.VerifyFunc(v.FuncByKey(k), govc.UnitOpts{UseCands: true, WantTerm: len(args) > 1 && args[1] == "term"}, so)
			var sb strings.Builder
			sb.WriteString(r.Summary())
			for _, o := range r.Obligations {
				if !o.Discharged() {
					fmt.Fprintf(&sb, "\n    %s %s [%s] %s:%d", o.Status(), o.Name, o.Desc, o.Pos.Filename, o.Pos.Line)
				}
			}
			res[i] = sb.String()
		}()
	}
	for range keys {
		<-done
	}
	for _, r := range res {
		fmt.Println(r)
	}
}

// repoDir: /repo, or $GOVC_REPO (a scratch copy) for the debugging sub-commands
func repoDir() string {
	if d := os.Getenv("GOVC_REPO"); d != "" {
		return d
	}
	return "/repo"
}

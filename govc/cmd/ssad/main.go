package main

import (
	"fmt"
	"os"

	"golang.org/x/tools/go/packages"
	"golang.org/x/tools/go/ssa"
	"golang.org/x/tools/go/ssa/ssautil"
)

func main() {
	cfg := &packages.Config{Mode: packages.LoadAllSyntax, Dir: "/repo", BuildFlags: []string{"-tags=verif"}}
	pkgs, err := packages.Load(cfg, os.Args[1])
	if err != nil {
		panic(err)
	}
	prog, spkgs := ssautil.AllPackages(pkgs, ssa.NaiveForm|ssa.GlobalDebug)
	prog.Build()
	for _, p := range spkgs {
		for _, m := range p.Members {
			if f, ok := m.(*ssa.Function); ok && (len(os.Args) < 3 || f.Name() == os.Args[2]) {
				f.WriteTo(os.Stdout)
			}
		}
		if len(os.Args) >= 3 {
			for _, m := range p.Members {
				if t, ok := m.(*ssa.Type); ok {
					ms := prog.MethodSets.MethodSet(t.Type())
					for i := 0; i < ms.Len(); i++ {
						f := prog.MethodValue(ms.At(i))
						if f != nil && f.Name() == os.Args[2] {
							f.WriteTo(os.Stdout)
						}
					}
				}
			}
		}
	}
	fmt.Println()
}

package govc

import (
	"sync"
	"fmt"
	"go/types"
	"math"
	"regexp"
	"strings"
)

// FloatMode selects how float64 is modelled for one verification unit.
type FloatMode int

const (
	FloatIEEE     FloatMode = iota // (_ FloatingPoint 11 53), bit-precise
	FloatBits                      // BV64 payload, copy/compare-bits only
	FloatAbstract                  // uninterpreted sort + UF operations
)

func (m FloatMode) String() string {
	return [...]string{"ieee", "bits", "abstract"}[m]
}

// World holds the sort registry and declarations for one verification unit
// (one function under contract). Everything declared here is printed in the
// prelude of each obligation of the unit.
type World struct {
	FM       FloatMode
	IntBV    bool // integers are bit-vectors of their exact width (`mode bv`)
	dts      map[string]*DT
	dtOrder  []*DT
	decls    []string        // declare-fun / define-fun lines, in order
	declared map[string]bool // names
	typeIDs  map[string]int  // dynamic type tags for interfaces
	typeByID map[int]types.Type
	fconsts  map[uint64]*Term
	nfresh   int
	Unsup    []string // unsupported constructs encountered (subset obligation)
}

func NewWorld(fm FloatMode) *World {
	w := &World{FM: fm, dts: map[string]*DT{}, declared: map[string]bool{}, typeIDs: map[string]int{}, typeByID: map[int]types.Type{}, fconsts: map[uint64]*Term{}}
	w.SliceDT()
	w.StrDT()
	w.IfaceDT()
	return w
}

func (w *World) FloatSort() string { return "Float" }

func (w *World) Prelude() string {
	var sb strings.Builder
	sb.WriteString("(set-logic ALL)\n")
	switch w.FM {
	case FloatIEEE:
		sb.WriteString("(define-sort Float () (_ FloatingPoint 11 53))\n")
	case FloatBits:
		sb.WriteString("(define-sort Float () Int)\n") // the uint64 bit pattern as an integer in [0, 2^64)
	case FloatAbstract:
		sb.WriteString("(declare-sort Float 0)\n")
	}
	sb.WriteString("(define-fun tdiv ((a Int) (b Int)) Int (ite (>= a 0) (ite (> b 0) (div a b) (- (div a (- b)))) (ite (> b 0) (- (div (- a) b)) (div (- a) (- b)))))\n")
	sb.WriteString("(define-fun trem ((a Int) (b Int)) Int (- a (* b (tdiv a b))))\n")
	for _, d := range w.dtOrder {
		sb.WriteString(d.Decl())
		sb.WriteByte('\n')
	}
	for _, d := range w.decls {
		sb.WriteString(d)
		sb.WriteByte('\n')
	}
	return sb.String()
}

func (w *World) Declare(name, decl string) {
	if w.declared[name] {
		return
	}
	w.declared[name] = true
	w.decls = append(w.decls, decl)
}

func (w *World) FreshName(prefix string) string {
	w.nfresh++
	return fmt.Sprintf("%s!%d", sanitize(prefix), w.nfresh)
}

var sanRe = regexp.MustCompile(`[^A-Za-z0-9_.$]`)

func sanitize(s string) string { return sanRe.ReplaceAllString(s, "_") }

func (w *World) regDT(d *DT) *DT {
	if e, ok := w.dts[d.Name]; ok {
		return e
	}
	w.dts[d.Name] = d
	w.dtOrder = append(w.dtOrder, d)
	return d
}

func (w *World) SliceDT() *DT {
	if d, ok := w.dts["Slice"]; ok {
		return d
	}
	return w.regDT(&DT{Name: "Slice", Ctor: "mk-Slice", Fields: []DTField{{"s_ref", "Int"}, {"s_off", "Int"}, {"s_len", "Int"}, {"s_cap", "Int"}}})
}
func (w *World) StrDT() *DT {
	if d, ok := w.dts["Str"]; ok {
		return d
	}
	return w.regDT(&DT{Name: "Str", Ctor: "mk-Str", Fields: []DTField{{"str_chars", "(Array Int Int)"}, {"str_len", "Int"}}})
}
func (w *World) IfaceDT() *DT {
	if d, ok := w.dts["Iface"]; ok {
		return d
	}
	return w.regDT(&DT{Name: "Iface", Ctor: "mk-Iface", Fields: []DTField{{"i_tag", "Int"}, {"i_val", "Int"}}})
}

// Slice helpers
func (w *World) SRef(s *Term) *Term { return Sel(w.SliceDT(), 0, s) }
func (w *World) SOff(s *Term) *Term { return Sel(w.SliceDT(), 1, s) }
func (w *World) SLen(s *Term) *Term { return Sel(w.SliceDT(), 2, s) }
func (w *World) SCap(s *Term) *Term { return Sel(w.SliceDT(), 3, s) }
func (w *World) MkSlice(ref, off, ln, cp *Term) *Term {
	return Mk(w.SliceDT(), ref, off, ln, cp)
}
func (w *World) NilSlice() *Term {
	return w.MkSlice(IntLit(0), IntLit(0), IntLit(0), IntLit(0))
}
func (w *World) NilIface() *Term { return Mk(w.IfaceDT(), IntLit(0), IntLit(0)) }

// TypeKey is the heap key for an element / pointee Go type.
func TypeKey(t types.Type) string {
	k := sanitize(types.TypeString(t, func(p *types.Package) string { return p.Name() }))
	typeKeyReg.Store(k, t)
	return k
}

// typeKeyReg: heap key suffix -> Go type, so that a heap named only by an effect set can be
// materialized before it is havoced
var typeKeyReg sync.Map

func typeOfKey(k string) types.Type {
	if t, ok := typeKeyReg.Load(k); ok {
		return t.(types.Type)
	}
	return nil
}

// TypeID returns the dynamic type tag for interface values (0 is nil).
func (w *World) TypeID(t types.Type) int {
	k := types.TypeString(t, nil)
	if id, ok := w.typeIDs[k]; ok {
		return id
	}
	id := len(w.typeIDs) + 1
	w.typeIDs[k] = id
	w.typeByID[id] = t
	return id
}

// SortOf maps a Go type to an SMT sort, registering datatypes on the way.
func (w *World) SortOf(t types.Type) string {
	switch u := t.Underlying().(type) {
	case *types.Basic:
		switch {
		case u.Info()&types.IsBoolean != 0:
			return "Bool"
		case u.Info()&types.IsInteger != 0:
			if w.IntBV {
				bits, _ := intBits(u)
				return bvSort(bits)
			}
			return "Int"
		case u.Info()&types.IsFloat != 0:
			return "Float"
		case u.Info()&types.IsString != 0:
			return "Str"
		case u.Kind() == types.UnsafePointer:
			return "Int"
		case u.Kind() == types.UntypedNil:
			return "Int"
		}
		w.unsupported("basic type " + u.String())
		return "Int"
	case *types.Pointer, *types.Map, *types.Chan, *types.Signature:
		return "Int"
	case *types.Slice:
		return "Slice"
	case *types.Interface:
		return "Iface"
	case *types.Array:
		return w.ArrayDT(u).Name
	case *types.Struct:
		return w.StructDT(t).Name
	case *types.Tuple:
		w.unsupported("tuple sort")
		return "Int"
	}
	w.unsupported("type " + t.String())
	return "Int"
}

func (w *World) unsupported(what string) {
	for _, u := range w.Unsup {
		if u == what {
			return
		}
	}
	w.Unsup = append(w.Unsup, what)
}

func (w *World) ArrayDT(a *types.Array) *DT {
	es := w.SortOf(a.Elem())
	name := fmt.Sprintf("Arr%d_%s", a.Len(), sanitize(es))
	if d, ok := w.dts[name]; ok {
		return d
	}
	if a.Len() > 16 {
		w.unsupported(fmt.Sprintf("array of length %d", a.Len()))
	}
	d := &DT{Name: name, Ctor: "mk-" + name}
	n := int(a.Len())
	if n > 16 {
		n = 16
	}
	for i := 0; i < n; i++ {
		d.Fields = append(d.Fields, DTField{fmt.Sprintf("%s_%d", name, i), es})
	}
	return w.regDT(d)
}

func (w *World) StructDT(t types.Type) *DT {
	st := t.Underlying().(*types.Struct)
	var name string
	if n, ok := t.(*types.Named); ok {
		name = "St_" + sanitize(n.Obj().Pkg().Name()+"."+n.Obj().Name())
	} else {
		name = "St_" + sanitize(st.String())
	}
	if d, ok := w.dts[name]; ok {
		return d
	}
	d := &DT{Name: name, Ctor: "mk-" + name}
	// reserve to cut recursion through pointers (pointers are Int so no real recursion)
	for i := 0; i < st.NumFields(); i++ {
		d.Fields = append(d.Fields, DTField{fmt.Sprintf("%s_%s", name, sanitize(st.Field(i).Name())), w.SortOf(st.Field(i).Type())})
	}
	return w.regDT(d)
}

func (w *World) DTOf(t types.Type) *DT {
	switch u := t.Underlying().(type) {
	case *types.Array:
		return w.ArrayDT(u)
	case *types.Struct:
		return w.StructDT(t)
	case *types.Slice:
		return w.SliceDT()
	case *types.Interface:
		return w.IfaceDT()
	case *types.Basic:
		if u.Info()&types.IsString != 0 {
			return w.StrDT()
		}
	}
	return nil
}

// Zero value of a Go type.
func (w *World) Zero(t types.Type) *Term {
	switch u := t.Underlying().(type) {
	case *types.Basic:
		switch {
		case u.Info()&types.IsBoolean != 0:
			return False
		case u.Info()&types.IsInteger != 0:
			if w.IntBV {
				bits, _ := intBits(u)
				return bvLit(new(bigInt), bits)
			}
			return IntLit(0)
		case u.Info()&types.IsFloat != 0:
			return w.FConst(0)
		case u.Info()&types.IsString != 0:
			return w.StrConst("")
		}
		return IntLit(0)
	case *types.Slice:
		return w.NilSlice()
	case *types.Interface:
		return w.NilIface()
	case *types.Array:
		d := w.ArrayDT(u)
		args := make([]*Term, len(d.Fields))
		z := w.Zero(u.Elem())
		for i := range args {
			args[i] = z
		}
		return Mk(d, args...)
	case *types.Struct:
		d := w.StructDT(t)
		args := make([]*Term, len(d.Fields))
		for i := range args {
			args[i] = w.Zero(u.Field(i).Type())
		}
		return Mk(d, args...)
	}
	return IntLit(0)
}

// ---- floats ----

func (w *World) FConst(f float64) *Term {
	bits := math.Float64bits(f)
	if t, ok := w.fconsts[bits]; ok {
		return t
	}
	var t *Term
	switch w.FM {
	case FloatIEEE:
		t = Leaf(fmt.Sprintf("(fp #b%01b #b%011b #b%052b)", bits>>63, (bits>>52)&0x7ff, bits&((1<<52)-1)), "Float")
	case FloatBits:
		t = Leaf(new(bigInt).SetUint64(bits).String(), "Float")
	case FloatAbstract:
		name := fmt.Sprintf("fc_%016x", bits)
		w.Declare(name, fmt.Sprintf("(declare-const %s Float)", name))
		t = Leaf(name, "Float")
		// constants are pairwise distinct values
		for ob, ot := range w.fconsts {
			if ob != bits && !(math.IsNaN(f)) {
				w.decls = append(w.decls, fmt.Sprintf("(assert (not (= %s %s)))", name, ot.Op))
			}
		}
		if f == 0 && bits == 0 {
			w.needAbstractOps()
			w.decls = append(w.decls, fmt.Sprintf("(assert (= fzero %s))", name))
		}
	}
	w.fconsts[bits] = t
	return t
}

func (w *World) needAbstractOps() {
	if w.declared["fadd"] {
		return
	}
	w.Declare("fadd", "(declare-fun fadd (Float Float) Float)")
	w.Declare("fsub", "(declare-fun fsub (Float Float) Float)")
	w.Declare("fmul", "(declare-fun fmul (Float Float) Float)")
	w.Declare("fdiv", "(declare-fun fdiv (Float Float) Float)")
	w.Declare("fneg", "(declare-fun fneg (Float) Float)")
	w.Declare("feq", "(declare-fun feq (Float Float) Bool)")
	w.Declare("flt", "(declare-fun flt (Float Float) Bool)")
	w.Declare("fle", "(declare-fun fle (Float Float) Bool)")
	w.Declare("fisnan", "(declare-fun fisnan (Float) Bool)")
	w.Declare("fzero", "(declare-const fzero Float)")
	w.Declare("i2f", "(declare-fun i2f (Int) Float)")
	w.Declare("f2i", "(declare-fun f2i (Float) Int)")
	// order/equality skeleton that holds of IEEE comparisons (each is a QF_FP fact
	// proved in spec/ieee.lem against the real semantics):
	w.decls = append(w.decls,
		"(assert (forall ((a Float) (b Float)) (! (= (feq a b) (feq b a)) :pattern ((feq a b)))))",
		"(assert (forall ((a Float)) (! (= (feq a a) (not (fisnan a))) :pattern ((feq a a)))))",
		"(assert (forall ((a Float) (b Float)) (! (=> (= a b) (= (feq a b) (not (fisnan a)))) :pattern ((feq a b)))))",
		"(assert (forall ((a Float) (b Float)) (! (= (fle a b) (or (flt a b) (feq a b))) :pattern ((fle a b)))))",
		"(assert (forall ((a Float) (b Float)) (! (not (and (flt a b) (flt b a))) :pattern ((flt a b)))))",
		"(assert (forall ((a Float) (b Float)) (! (=> (flt a b) (not (feq a b))) :pattern ((flt a b)))))",
		"(assert (forall ((a Float) (b Float)) (! (=> (or (fisnan a) (fisnan b)) (and (not (flt a b)) (not (feq a b)))) :pattern ((flt a b)) :pattern ((feq a b)))))",
	)
}

func (w *World) fbin(op string, a, b *Term) *Term {
	switch w.FM {
	case FloatIEEE:
		m := map[string]string{"+": "fp.add", "-": "fp.sub", "*": "fp.mul", "/": "fp.div"}[op]
		return App(m+" RNE", "Float", a, b)
	case FloatAbstract:
		w.needAbstractOps()
		m := map[string]string{"+": "fadd", "-": "fsub", "*": "fmul", "/": "fdiv"}[op]
		return App(m, "Float", a, b)
	}
	w.unsupported("float arithmetic in floats bits mode")
	return w.freshConst("fop", "Float")
}
func (w *World) FNeg(a *Term) *Term {
	switch w.FM {
	case FloatIEEE:
		return App("fp.neg", "Float", a)
	case FloatAbstract:
		w.needAbstractOps()
		return App("fneg", "Float", a)
	}
	// sign flip on the bit pattern
	half := Leaf("9223372036854775808", "Float")
	return App("ite", "Float", App(">=", "Bool", a, half), App("-", "Float", a, half), App("+", "Float", a, half))
}
func (w *World) FCmp(op string, a, b *Term) *Term {
	switch w.FM {
	case FloatIEEE:
		switch op {
		case "==":
			return App("fp.eq", "Bool", a, b)
		case "!=":
			return Not(App("fp.eq", "Bool", a, b))
		case "<":
			return App("fp.lt", "Bool", a, b)
		case "<=":
			return App("fp.leq", "Bool", a, b)
		case ">":
			return App("fp.gt", "Bool", a, b)
		case ">=":
			return App("fp.geq", "Bool", a, b)
		}
	case FloatAbstract:
		w.needAbstractOps()
		switch op {
		case "==":
			return App("feq", "Bool", a, b)
		case "!=":
			return Not(App("feq", "Bool", a, b))
		case "<":
			return App("flt", "Bool", a, b)
		case "<=":
			return App("fle", "Bool", a, b)
		case ">":
			return App("flt", "Bool", b, a)
		case ">=":
			return App("fle", "Bool", b, a)
		}
	case FloatBits:
		// IEEE equality written on the bit pattern (an integer): equal bits and not NaN, or both zeros.
		p52 := Leaf("4503599627370496", "Int")
		p63 := Leaf("9223372036854775808", "Int")
		isNaN := func(x *Term) *Term {
			return And(App("=", "Bool", App("mod", "Int", App("div", "Int", x, p52), Leaf("2048", "Int")), Leaf("2047", "Int")),
				Not(App("=", "Bool", App("mod", "Int", x, p52), Leaf("0", "Int"))))
		}
		isZero := func(x *Term) *Term {
			return App("=", "Bool", App("mod", "Int", x, p63), Leaf("0", "Int"))
		}
		eq := Or(And(App("=", "Bool", a, b), Not(isNaN(a))), And(isZero(a), isZero(b)))
		switch op {
		case "==":
			return eq
		case "!=":
			return Not(eq)
		}
		w.unsupported("float ordering in floats bits mode")
		return w.freshConst("fcmp", "Bool")
	}
	panic("fcmp " + op)
}

func (w *World) freshConst(prefix, sort string) *Term {
	n := w.FreshName(prefix)
	w.Declare(n, fmt.Sprintf("(declare-const %s %s)", n, sort))
	return Leaf(n, sort)
}

// UF declares (once) and applies an uninterpreted function.
func (w *World) UF(name string, argSorts []string, res string, args ...*Term) *Term {
	w.Declare(name, fmt.Sprintf("(declare-fun %s (%s) %s)", name, strings.Join(argSorts, " "), res))
	if len(args) == 0 {
		return Leaf(name, res)
	}
	return App(name, res, args...)
}

// ---- strings ----

func (w *World) StrConst(s string) *Term {
	arr := Leaf("((as const (Array Int Int)) 0)", "(Array Int Int)")
	if len(s) > 64 {
		// long literals: abstract content, exact length
		arr = w.freshConst("strlit", "(Array Int Int)")
	} else {
		for i := 0; i < len(s); i++ {
			arr = Store(arr, IntLit(int64(i)), IntLit(int64(s[i])))
		}
	}
	return Mk(w.StrDT(), arr, IntLit(int64(len(s))))
}
func (w *World) StrLen(s *Term) *Term   { return Sel(w.StrDT(), 1, s) }
func (w *World) StrChars(s *Term) *Term { return Sel(w.StrDT(), 0, s) }

// ---- integer ranges ----

func intRange(b *types.Basic) (lo, hi *Term, ok bool) {
	pow := func(n uint) *Term {
		return BigLit(new(bigInt).Lsh(bigOne, n))
	}
	negpow := func(n uint) *Term {
		x := new(bigInt).Lsh(bigOne, n)
		return BigLit(x.Neg(x))
	}
	m1 := func(t *Term) *Term { return Sub(t, IntLit(1)) }
	switch b.Kind() {
	case types.Int, types.Int64, types.UntypedInt:
		return negpow(63), m1(pow(63)), true
	case types.Int32, types.UntypedRune:
		return negpow(31), m1(pow(31)), true
	case types.Int16:
		return negpow(15), m1(pow(15)), true
	case types.Int8:
		return negpow(7), m1(pow(7)), true
	case types.Uint, types.Uint64, types.Uintptr:
		return IntLit(0), m1(pow(64)), true
	case types.Uint32:
		return IntLit(0), m1(pow(32)), true
	case types.Uint16:
		return IntLit(0), m1(pow(16)), true
	case types.Uint8:
		return IntLit(0), m1(pow(8)), true
	}
	return nil, nil, false
}

func intBits(b *types.Basic) (bits uint, signed bool) {
	switch b.Kind() {
	case types.Int, types.Int64, types.UntypedInt:
		return 64, true
	case types.Int32, types.UntypedRune:
		return 32, true
	case types.Int16:
		return 16, true
	case types.Int8:
		return 8, true
	case types.Uint, types.Uint64, types.Uintptr:
		return 64, false
	case types.Uint32:
		return 32, false
	case types.Uint16:
		return 16, false
	case types.Uint8:
		return 8, false
	}
	return 64, true
}

// At is the absolute index off+i of element i of a slice, kept as an uninterpreted
// application so that quantifier instantiation (E-matching) sees through index arithmetic.
func (w *World) At(off, i *Term) *Term {
	if _, ok := off.intVal(); ok {
		if _, ok := i.intVal(); ok {
			return Add(off, i)
		}
	}
	if !w.declared["at"] {
		w.Declare("at", "(declare-fun at (Int Int) Int)")
		w.decls = append(w.decls, "(assert (forall ((o Int) (i Int)) (! (= (at o i) (+ o i)) :pattern ((at o i)))))")
	}
	return App("at", "Int", off, i)
}

// ZeroRow is the content of a freshly allocated backing array: every element is the zero value.
func (w *World) ZeroRow(elem types.Type) *Term {
	es := w.SortOf(elem)
	name := "zrow_" + sanitize(es)
	sort := ArraySort("Int", es)
	if !w.declared[name] {
		w.Declare(name, fmt.Sprintf("(declare-const %s %s)", name, sort))
		w.decls = append(w.decls, fmt.Sprintf("(assert (forall ((k Int)) (! (= (select %s k) %s) :pattern ((select %s k)))))", name, w.Zero(elem), name))
	}
	return Leaf(name, sort)
}

package govc

import (
	"fmt"
	"math/big"
	"os"
	"path/filepath"
	"sort"
	"strconv"
	"strings"
	"unicode"
)

type bigInt = big.Int

var bigOne = big.NewInt(1)

// ---------- contract AST ----------

type Expr interface{ exprString() string }

type (
	EIdent struct{ Name string }
	EInt   struct{ Val *big.Int }
	EFloat struct{ Val float64 }
	EStr   struct{ Val string }
	EBool  struct{ Val bool }
	EUnary struct {
		Op string
		X  Expr
	}
	EBinary struct {
		Op   string
		X, Y Expr
	}
	ECall struct {
		Fun  Expr // EIdent or EField
		Args []Expr
	}
	EIndex struct{ X, I Expr }
	ESlice struct{ X, Lo, Hi Expr }
	EField struct {
		X    Expr
		Name string
	}
	EQuant struct {
		Forall bool
		Vars   []QVar
		Body   Expr
	}
	EOld struct{ X Expr }
)

type QVar struct {
	Name string
	Type string // Go type text, "" = int
}

func (e *EIdent) exprString() string { return e.Name }
func (e *EInt) exprString() string   { return e.Val.String() }
func (e *EFloat) exprString() string { return strconv.FormatFloat(e.Val, 'g', -1, 64) }
func (e *EStr) exprString() string   { return strconv.Quote(e.Val) }
func (e *EBool) exprString() string  { return fmt.Sprint(e.Val) }
func (e *EUnary) exprString() string { return e.Op + e.X.exprString() }
func (e *EBinary) exprString() string {
	return "(" + e.X.exprString() + " " + e.Op + " " + e.Y.exprString() + ")"
}
func (e *ECall) exprString() string {
	var as []string
	for _, a := range e.Args {
		as = append(as, a.exprString())
	}
	return e.Fun.exprString() + "(" + strings.Join(as, ", ") + ")"
}
func (e *EIndex) exprString() string { return e.X.exprString() + "[" + e.I.exprString() + "]" }
func (e *ESlice) exprString() string {
	s := e.X.exprString() + "["
	if e.Lo != nil {
		s += e.Lo.exprString()
	}
	s += ":"
	if e.Hi != nil {
		s += e.Hi.exprString()
	}
	return s + "]"
}
func (e *EField) exprString() string { return e.X.exprString() + "." + e.Name }
func (e *EQuant) exprString() string {
	q := "exists"
	if e.Forall {
		q = "forall"
	}
	var vs []string
	for _, v := range e.Vars {
		if v.Type != "" {
			vs = append(vs, v.Name+" "+v.Type)
		} else {
			vs = append(vs, v.Name)
		}
	}
	return "(" + q + " " + strings.Join(vs, ", ") + " :: " + e.Body.exprString() + ")"
}
func (e *EOld) exprString() string { return "old(" + e.X.exprString() + ")" }

// ---------- lexer ----------

type tok struct {
	kind string // ident int float str op eof
	text string
	pos  int
}

func lex(src string) ([]tok, error) {
	var out []tok
	i := 0
	ops := []string{"<==>", "==>", "::", "&&", "||", "==", "!=", "<=", ">=", "<<", ">>", "&^",
		"+", "-", "*", "/", "%", "<", ">", "!", "(", ")", "[", "]", ",", ".", ":", "&", "|", "^", "{", "}", "="}
	for i < len(src) {
		c := src[i]
		if c == ' ' || c == '\t' || c == '\n' || c == '\r' {
			i++
			continue
		}
		if unicode.IsLetter(rune(c)) || c == '_' {
			j := i
			for j < len(src) && (unicode.IsLetter(rune(src[j])) || unicode.IsDigit(rune(src[j])) || src[j] == '_' || src[j] == '$' || (src[j] == '#' && j+1 < len(src) && src[j+1] >= '0' && src[j+1] <= '9')) {
				j++
			}
			out = append(out, tok{"ident", src[i:j], i})
			i = j
			continue
		}
		if c >= '0' && c <= '9' {
			j := i
			isFloat := false
			if c == '0' && j+1 < len(src) && (src[j+1] == 'x' || src[j+1] == 'X') {
				j += 2
				for j < len(src) && (isHex(src[j]) || src[j] == '_') {
					j++
				}
			} else {
				for j < len(src) && (src[j] >= '0' && src[j] <= '9' || src[j] == '_') {
					j++
				}
				if j < len(src) && src[j] == '.' && j+1 < len(src) && src[j+1] >= '0' && src[j+1] <= '9' {
					isFloat = true
					j++
					for j < len(src) && src[j] >= '0' && src[j] <= '9' {
						j++
					}
				}
				if j < len(src) && (src[j] == 'e' || src[j] == 'E') {
					k := j + 1
					if k < len(src) && (src[k] == '+' || src[k] == '-') {
						k++
					}
					if k < len(src) && src[k] >= '0' && src[k] <= '9' {
						isFloat = true
						j = k
						for j < len(src) && src[j] >= '0' && src[j] <= '9' {
							j++
						}
					}
				}
			}
			k := "int"
			if isFloat {
				k = "float"
			}
			out = append(out, tok{k, strings.ReplaceAll(src[i:j], "_", ""), i})
			i = j
			continue
		}
		if c == '"' {
			j := i + 1
			for j < len(src) && src[j] != '"' {
				if src[j] == '\\' {
					j++
				}
				j++
			}
			if j >= len(src) {
				return nil, fmt.Errorf("unterminated string at %d", i)
			}
			s, err := strconv.Unquote(src[i : j+1])
			if err != nil {
				return nil, err
			}
			out = append(out, tok{"str", s, i})
			i = j + 1
			continue
		}
		matched := false
		for _, op := range ops {
			if strings.HasPrefix(src[i:], op) {
				out = append(out, tok{"op", op, i})
				i += len(op)
				matched = true
				break
			}
		}
		if !matched {
			return nil, fmt.Errorf("unexpected character %q at %d in %q", c, i, src)
		}
	}
	out = append(out, tok{"eof", "", len(src)})
	return out, nil
}

func isHex(c byte) bool {
	return c >= '0' && c <= '9' || c >= 'a' && c <= 'f' || c >= 'A' && c <= 'F'
}

// ---------- parser ----------

type parser struct {
	toks []tok
	p    int
	src  string
}

func ParseExpr(src string) (Expr, error) {
	toks, err := lex(src)
	if err != nil {
		return nil, err
	}
	ps := &parser{toks: toks, src: src}
	e, err := ps.expr(0)
	if err != nil {
		return nil, err
	}
	if ps.peek().kind != "eof" {
		return nil, fmt.Errorf("trailing input at %d in %q", ps.peek().pos, src)
	}
	return e, nil
}

func (p *parser) peek() tok { return p.toks[p.p] }
func (p *parser) next() tok { t := p.toks[p.p]; p.p++; return t }
func (p *parser) isOp(s string) bool {
	t := p.peek()
	return t.kind == "op" && t.text == s
}
func (p *parser) expect(s string) error {
	if !p.isOp(s) {
		return fmt.Errorf("expected %q at %d in %q", s, p.peek().pos, p.src)
	}
	p.next()
	return nil
}

var binPrec = map[string]int{
	"<==>": 1, "==>": 2, "||": 3, "&&": 4,
	"==": 5, "!=": 5, "<": 5, "<=": 5, ">": 5, ">=": 5,
	"+": 6, "-": 6, "|": 6, "^": 6,
	"*": 7, "/": 7, "%": 7, "<<": 7, ">>": 7, "&": 7, "&^": 7,
}

func (p *parser) expr(minPrec int) (Expr, error) {
	lhs, err := p.unary()
	if err != nil {
		return nil, err
	}
	for {
		t := p.peek()
		if t.kind != "op" {
			break
		}
		prec, ok := binPrec[t.text]
		if !ok || prec < minPrec {
			break
		}
		p.next()
		nextMin := prec + 1
		if t.text == "==>" { // right associative
			nextMin = prec
		}
		rhs, err := p.expr(nextMin)
		if err != nil {
			return nil, err
		}
		lhs = &EBinary{t.text, lhs, rhs}
	}
	return lhs, nil
}

func (p *parser) unary() (Expr, error) {
	t := p.peek()
	if t.kind == "op" && (t.text == "!" || t.text == "-" || t.text == "+") {
		p.next()
		x, err := p.unary()
		if err != nil {
			return nil, err
		}
		if t.text == "+" {
			return x, nil
		}
		if t.text == "-" {
			if l, ok := x.(*EInt); ok {
				return &EInt{new(big.Int).Neg(l.Val)}, nil
			}
			if l, ok := x.(*EFloat); ok {
				return &EFloat{-l.Val}, nil
			}
		}
		return &EUnary{t.text, x}, nil
	}
	return p.postfix()
}

func (p *parser) postfix() (Expr, error) {
	x, err := p.primary()
	if err != nil {
		return nil, err
	}
	for {
		switch {
		case p.isOp("("):
			p.next()
			var args []Expr
			for !p.isOp(")") {
				a, err := p.expr(0)
				if err != nil {
					return nil, err
				}
				args = append(args, a)
				if p.isOp(",") {
					p.next()
				} else {
					break
				}
			}
			if err := p.expect(")"); err != nil {
				return nil, err
			}
			if id, ok := x.(*EIdent); ok && id.Name == "old" && len(args) == 1 {
				x = &EOld{args[0]}
			} else {
				x = &ECall{x, args}
			}
		case p.isOp("["):
			p.next()
			var lo, hi Expr
			if !p.isOp(":") {
				lo, err = p.expr(0)
				if err != nil {
					return nil, err
				}
			}
			if p.isOp(":") {
				p.next()
				if !p.isOp("]") {
					hi, err = p.expr(0)
					if err != nil {
						return nil, err
					}
				}
				if err := p.expect("]"); err != nil {
					return nil, err
				}
				x = &ESlice{x, lo, hi}
			} else {
				if err := p.expect("]"); err != nil {
					return nil, err
				}
				x = &EIndex{x, lo}
			}
		case p.isOp("."):
			p.next()
			t := p.next()
			if t.kind != "ident" {
				return nil, fmt.Errorf("expected field name at %d in %q", t.pos, p.src)
			}
			x = &EField{x, t.text}
		default:
			return x, nil
		}
	}
}

// postfixType reads a (possibly qualified, possibly nested slice/pointer) type name.
func (p *parser) postfixType() (string, error) {
	out := ""
	for {
		if p.isOp("[") {
			p.next()
			if err := p.expect("]"); err != nil {
				return "", err
			}
			out += "[]"
			continue
		}
		if p.isOp("*") {
			p.next()
			out += "*"
			continue
		}
		break
	}
	t := p.next()
	if t.kind != "ident" {
		return "", fmt.Errorf("expected type name at %d in %q", t.pos, p.src)
	}
	out += t.text
	for p.isOp(".") {
		p.next()
		n := p.next()
		out += "." + n.text
	}
	return out, nil
}

func (p *parser) primary() (Expr, error) {
	t := p.next()
	switch t.kind {
	case "int":
		b, ok := new(big.Int).SetString(t.text, 0)
		if !ok {
			return nil, fmt.Errorf("bad integer %q", t.text)
		}
		return &EInt{b}, nil
	case "float":
		f, err := strconv.ParseFloat(t.text, 64)
		if err != nil {
			return nil, err
		}
		return &EFloat{f}, nil
	case "str":
		return &EStr{t.text}, nil
	case "ident":
		switch t.text {
		case "true":
			return &EBool{true}, nil
		case "false":
			return &EBool{false}, nil
		case "forall", "exists":
			var vars []QVar
			for {
				n := p.next()
				if n.kind != "ident" {
					return nil, fmt.Errorf("expected bound variable at %d in %q", n.pos, p.src)
				}
				qv := QVar{Name: n.text}
				// optional type: tokens up to ',' or '::'
				var ty []string
				for !(p.isOp(",") || p.isOp("::") || p.peek().kind == "eof") {
					ty = append(ty, p.next().text)
				}
				qv.Type = strings.Join(ty, "")
				vars = append(vars, qv)
				if p.isOp(",") {
					p.next()
					continue
				}
				break
			}
			if err := p.expect("::"); err != nil {
				return nil, err
			}
			body, err := p.expr(0)
			if err != nil {
				return nil, err
			}
			return &EQuant{t.text == "forall", vars, body}, nil
		}
		return &EIdent{t.text}, nil
	case "op":
		if t.text == "[" && p.isOp("]") {
			// slice type used as an argument of istype/as: []T
			p.next()
			inner, err := p.postfixType()
			if err != nil {
				return nil, err
			}
			return &EIdent{"[]" + inner}, nil
		}
		if t.text == "*" {
			x, err := p.unary()
			if err != nil {
				return nil, err
			}
			return &EUnary{"*", x}, nil
		}
		if t.text == "(" {
			e, err := p.expr(0)
			if err != nil {
				return nil, err
			}
			if err := p.expect(")"); err != nil {
				return nil, err
			}
			return e, nil
		}
	}
	return nil, fmt.Errorf("unexpected %q at %d in %q", t.text, t.pos, p.src)
}

// ---------- contract files ----------

type Clause struct {
	Text string
	E    Expr
	Name string // optional label:  ensures [label] expr
}

type LoopSpec struct {
	Invariants []Clause
	Decreases  *Clause
	Unroll     int
	Exits      []Clause // hold on every jump that leaves the loop
	ExitAssume []Clause // ASSUMED (not proved, listed) on every jump that leaves the loop
}

type Contract struct {
	Key       string // "pkgpath.Func" or "pkgpath.(Recv).Func"
	File      string
	Params    []string // alias names by position (receiver first), may be empty
	Results   []string
	Requires  []Clause
	Ensures   []Clause
	Modifies  []Expr // location expressions; nil + ModNothing
	ModSet    bool   // a modifies clause was given
	External  bool   // `extern`: assumed contract of a function outside /repo
	Allocates bool   // with `function`: may allocate (and write what it allocated); still writes no pre-existing memory
	Pure      bool   // no heap writes and no allocation
	Floats    FloatMode
	FloatsSet bool
	Inline    bool     // callers inline the body instead of using the contract
	Trusted   bool     // assumed, body not verified (listed as assumption)
	OvfAssume bool     // signed 64-bit overflow assumed absent instead of proved
	CallPre   []Clause // obligations at call sites (Name = callee/method name)
	RetWhen   []Clause // `return N: E`: the N-th return statement (source order) is taken only when E (Name = N)
	NoWrite   []string // heap keys this function (transitively) never writes: static frame obligations
	Function  bool     // pure AND deterministic: its result is an uninterpreted function of its arguments and the memory they reach; callable in contracts
	PureFuncs bool     // function-typed parameters are pure total deterministic functions (assumption)
	NoPanic   bool     // callers may rely on: does not panic when requires hold (always true for verified fns)
	Loops     map[int]*LoopSpec
	Opts      map[string]string
	Ghost     []string
}

type SpecFunc struct {
	Name    string
	Params  []QVar
	Result  string // Go type text
	Body    Expr
	BodyTxt string
	Rec     bool
	// `specfold f p n`: f depends on the heap of p's elements only through p[0..n) — proved by
	// induction as its own obligation (fold:f) and then available as an extensionality axiom
	FoldSlice, FoldN string
}

type Lemma struct {
	Name   string
	Text   string
	E      Expr
	Uses   []string
	Floats FloatMode
	BV     bool
}

type ContractFile struct {
	PkgPath   string
	Contracts map[string]*Contract
	Order     []string
	SpecFuncs map[string]*SpecFunc
	Lemmas    []*Lemma
	Externs   map[string]*Contract // assumed contracts on functions outside /repo, key "pkgpath.Func"
}

// LoadContracts reads <dir>/verif_contracts.go (comment-only, //go:build verif).
func LoadContracts(dir, pkgPath string) (*ContractFile, error) {
	cf := &ContractFile{PkgPath: pkgPath, Contracts: map[string]*Contract{}, SpecFuncs: map[string]*SpecFunc{}, Externs: map[string]*Contract{}}
	files, _ := filepath.Glob(filepath.Join(dir, "verif_contracts*.go"))
	sort.Strings(files)
	for _, f := range files {
		data, err := os.ReadFile(f)
		if err != nil {
			return nil, err
		}
		if err := cf.parse(string(data), f); err != nil {
			return nil, fmt.Errorf("%s: %v", f, err)
		}
	}
	return cf, nil
}

func (cf *ContractFile) parse(src, file string) error {
	// gather //@ lines, joining continuation lines (a line whose first token is
	// not a keyword continues the previous clause).
	var lines []string
	for _, ln := range strings.Split(src, "\n") {
		t := strings.TrimSpace(ln)
		if strings.HasPrefix(t, "//@") {
			lines = append(lines, strings.TrimSpace(t[3:]))
		} else if strings.HasPrefix(t, "// @") {
			lines = append(lines, strings.TrimSpace(t[4:]))
		}
	}
	keywords := map[string]bool{"func": true, "extern": true, "requires": true, "ensures": true, "modifies": true, "pure": true,
		"floats": true, "mode": true, "inline": true, "trusted": true, "ovf": true, "loop": true, "lemma": true, "spec": true,
		"opt": true, "ghost": true, "specfold": true, "allocates": true, "return": true, "uses": true, "nopanic": true, "purefuncs": true, "function": true, "nowrite": true, "callpre": true}
	var clauses []string
	for _, ln := range lines {
		if ln == "" {
			continue
		}
		first := ln
		if i := strings.IndexAny(ln, " \t:("); i >= 0 {
			first = ln[:i]
		}
		if keywords[first] || len(clauses) == 0 {
			clauses = append(clauses, ln)
		} else {
			clauses[len(clauses)-1] += " " + ln
		}
	}
	var cur *Contract
	var curLemma *Lemma
	for _, cl := range clauses {
		kw := cl
		rest := ""
		if i := strings.IndexAny(cl, " \t"); i >= 0 {
			kw, rest = cl[:i], strings.TrimSpace(cl[i+1:])
		}
		switch {
		case kw == "func" || kw == "extern":
			c, err := parseFuncHeader(rest, cf.PkgPath, kw == "extern")
			if err != nil {
				return err
			}
			c.File = file
			cur = c
			curLemma = nil
			if kw == "extern" {
				c.Trusted = true
				c.External = true
				cf.Externs[c.Key] = c
			} else {
				if _, dup := cf.Contracts[c.Key]; dup {
					return fmt.Errorf("duplicate contract for %s", c.Key)
				}
				cf.Contracts[c.Key] = c
				cf.Order = append(cf.Order, c.Key)
			}
		case kw == "spec":
			sf, err := parseSpecFunc(rest)
			if err != nil {
				return err
			}
			cf.SpecFuncs[sf.Name] = sf
			cur = nil
			curLemma = nil
		case kw == "specfold":
			fs := strings.Fields(rest)
			if len(fs) != 3 || cf.SpecFuncs[fs[0]] == nil {
				return fmt.Errorf("specfold needs '<spec function> <slice param> <count param>': %q", cl)
			}
			cf.SpecFuncs[fs[0]].FoldSlice, cf.SpecFuncs[fs[0]].FoldN = fs[1], fs[2]
			cur = nil
			curLemma = nil
		case strings.HasPrefix(kw, "lemma"):
			// lemma name: expr
			i := strings.Index(rest, ":")
			if i < 0 {
				return fmt.Errorf("lemma needs 'name: expr': %q", cl)
			}
			name := strings.TrimSpace(rest[:i])
			txt := strings.TrimSpace(rest[i+1:])
			e, err := ParseExpr(txt)
			if err != nil {
				return fmt.Errorf("lemma %s: %v", name, err)
			}
			curLemma = &Lemma{Name: name, Text: txt, E: e}
			cf.Lemmas = append(cf.Lemmas, curLemma)
			cur = nil
		case kw == "uses" && curLemma != nil:
			for _, part := range splitTop(rest) {
				if part = strings.TrimSpace(part); part != "" {
					curLemma.Uses = append(curLemma.Uses, part)
				}
			}
		case kw == "mode" && curLemma != nil:
			curLemma.BV = strings.TrimSpace(rest) == "bv"
		case kw == "floats" && curLemma != nil:
			fm, err := parseFloatMode(rest)
			if err != nil {
				return err
			}
			curLemma.Floats = fm
		default:
			if cur == nil {
				return fmt.Errorf("clause outside a func: %q", cl)
			}
			if err := cur.addClause(kw, rest); err != nil {
				return fmt.Errorf("%s: %v", cur.Key, err)
			}
		}
	}
	return nil
}

func parseFloatMode(s string) (FloatMode, error) {
	switch strings.TrimSpace(s) {
	case "ieee":
		return FloatIEEE, nil
	case "bits":
		return FloatBits, nil
	case "abstract":
		return FloatAbstract, nil
	}
	return 0, fmt.Errorf("unknown floats mode %q", s)
}

func parseClause(rest string) (Clause, error) {
	c := Clause{}
	rest = strings.TrimSpace(rest)
	if strings.HasPrefix(rest, "[") {
		if i := strings.Index(rest, "]"); i > 0 {
			c.Name = strings.TrimSpace(rest[1:i])
			rest = strings.TrimSpace(rest[i+1:])
		}
	}
	e, err := ParseExpr(rest)
	if err != nil {
		return c, err
	}
	c.Text = rest
	c.E = e
	return c, nil
}

func (c *Contract) addClause(kw, rest string) error {
	switch kw {
	case "requires":
		cl, err := parseClause(rest)
		if err != nil {
			return err
		}
		c.Requires = append(c.Requires, cl)
	case "ensures":
		cl, err := parseClause(rest)
		if err != nil {
			return err
		}
		c.Ensures = append(c.Ensures, cl)
	case "modifies":
		c.ModSet = true
		if strings.TrimSpace(rest) == "nothing" {
			return nil
		}
		for _, part := range splitTop(rest) {
			part = strings.TrimSpace(part)
			// `loc if cond`: the location may be written only when cond (over the entry state) holds
			var cond Expr
			if i := strings.Index(part, " if "); i > 0 {
				ce, err := ParseExpr(strings.TrimSpace(part[i+4:]))
				if err != nil {
					return err
				}
				cond = ce
				part = strings.TrimSpace(part[:i])
			}
			part = strings.ReplaceAll(part, "[*]", "[0:]")
			e, err := ParseExpr(part)
			if err != nil {
				return err
			}
			if cond != nil {
				e = &ECondLoc{Loc: e, Cond: cond}
			}
			c.Modifies = append(c.Modifies, e)
		}
	case "pure":
		c.Pure = true
		c.ModSet = true
	case "floats":
		fm, err := parseFloatMode(rest)
		if err != nil {
			return err
		}
		c.Floats = fm
		c.FloatsSet = true
	case "mode":
		if c.Opts == nil {
			c.Opts = map[string]string{}
		}
		c.Opts["mode"] = strings.TrimSpace(rest)
	case "inline":
		c.Inline = true
	case "trusted":
		c.Trusted = true
	case "nopanic":
		c.NoPanic = true
	case "purefuncs":
		c.PureFuncs = true
	case "nowrite":
		for _, k := range splitTop(rest) {
			if k = strings.TrimSpace(k); k != "" {
				c.NoWrite = append(c.NoWrite, k)
			}
		}
	case "callpre":
		// callpre <name>: E  — E must hold (in the caller's scope) at every call whose callee or
		// method name is <name>
		i := strings.Index(rest, ":")
		if i < 0 {
			return fmt.Errorf("callpre needs 'name: expr'")
		}
		cl, err := parseClause(rest[i+1:])
		if err != nil {
			return err
		}
		cl.Name = strings.TrimSpace(rest[:i])
		c.CallPre = append(c.CallPre, cl)
	case "allocates":
		// a `function` that builds temporaries: deterministic in its arguments and the memory they
		// reach, frame `modifies nothing`, but not allocation-free
		c.Allocates = true
		c.Pure = false
		c.ModSet = true
	case "return":
		// return N: E — an obligation at the N-th return statement of the function (source order):
		// "this return is taken only when E"; locals are in scope
		i := strings.Index(rest, ":")
		if i < 0 {
			return fmt.Errorf("return clause needs 'N: expr'")
		}
		if _, err := strconv.Atoi(strings.TrimSpace(rest[:i])); err != nil {
			return fmt.Errorf("return clause: %v", err)
		}
		cl, err := parseClause(rest[i+1:])
		if err != nil {
			return err
		}
		cl.Name = strings.TrimSpace(rest[:i])
		c.RetWhen = append(c.RetWhen, cl)
	case "function":
		c.Function = true
		c.Pure = !c.Allocates
		c.ModSet = true
	case "ovf":
		if strings.TrimSpace(rest) == "assume" {
			c.OvfAssume = true
		}
	case "opt":
		if c.Opts == nil {
			c.Opts = map[string]string{}
		}
		kv := strings.SplitN(rest, "=", 2)
		if len(kv) == 2 {
			c.Opts[strings.TrimSpace(kv[0])] = strings.TrimSpace(kv[1])
		} else {
			c.Opts[strings.TrimSpace(rest)] = "true"
		}
	case "ghost":
		c.Ghost = append(c.Ghost, rest)
	case "loop":
		// loop N: invariant E | decreases E | unroll K
		i := strings.Index(rest, ":")
		if i < 0 {
			return fmt.Errorf("loop clause needs 'N:': %q", rest)
		}
		n, err := strconv.Atoi(strings.TrimSpace(rest[:i]))
		if err != nil {
			return err
		}
		body := strings.TrimSpace(rest[i+1:])
		sub := body
		arg := ""
		if j := strings.IndexAny(body, " \t"); j >= 0 {
			sub, arg = body[:j], strings.TrimSpace(body[j+1:])
		}
		if c.Loops == nil {
			c.Loops = map[int]*LoopSpec{}
		}
		ls := c.Loops[n]
		if ls == nil {
			ls = &LoopSpec{}
			c.Loops[n] = ls
		}
		switch sub {
		case "invariant":
			cl, err := parseClause(arg)
			if err != nil {
				return err
			}
			ls.Invariants = append(ls.Invariants, cl)
		case "decreases":
			cl, err := parseClause(arg)
			if err != nil {
				return err
			}
			ls.Decreases = &cl
		case "exit":
			cl, err := parseClause(arg)
			if err != nil {
				return err
			}
			ls.Exits = append(ls.Exits, cl)
		case "exitassume":
			cl, err := parseClause(arg)
			if err != nil {
				return err
			}
			ls.ExitAssume = append(ls.ExitAssume, cl)
		case "unroll":
			k, err := strconv.Atoi(arg)
			if err != nil {
				return err
			}
			ls.Unroll = k
		default:
			return fmt.Errorf("unknown loop clause %q", sub)
		}
	default:
		return fmt.Errorf("unknown clause keyword %q", kw)
	}
	return nil
}

// splitTop splits on commas not nested in brackets/parens.
func splitTop(s string) []string {
	var out []string
	d := 0
	last := 0
	for i := 0; i < len(s); i++ {
		switch s[i] {
		case '(', '[':
			d++
		case ')', ']':
			d--
		case ',':
			if d == 0 {
				out = append(out, s[last:i])
				last = i + 1
			}
		}
	}
	out = append(out, s[last:])
	return out
}

// parseFuncHeader parses `Name(params) (results)`, `(Recv).Name(params) ...`, `(*Recv).Name(...)`;
// for extern: `pkg/path.Name(...)`, `pkg/path.(Recv).Name(...)`.
func parseFuncHeader(s, pkgPath string, extern bool) (*Contract, error) {
	s = strings.TrimSpace(s)
	c := &Contract{}
	// find the parameter list: first '(' after the name part
	nameEnd := -1
	if strings.HasPrefix(s, "(") {
		// receiver form
		i := strings.Index(s, ")")
		if i < 0 {
			return nil, fmt.Errorf("bad header %q", s)
		}
		j := strings.Index(s[i:], "(")
		if j < 0 {
			nameEnd = len(s)
		} else {
			nameEnd = i + j
		}
	} else {
		if idx := strings.Index(s, ".("); extern && idx >= 0 {
			i := strings.Index(s[idx:], ")")
			j := strings.Index(s[idx+i:], "(")
			if j < 0 {
				nameEnd = len(s)
			} else {
				nameEnd = idx + i + j
			}
		} else {
			nameEnd = strings.Index(s, "(")
			if nameEnd < 0 {
				nameEnd = len(s)
			}
		}
	}
	name := strings.TrimSpace(s[:nameEnd])
	rest := strings.TrimSpace(s[nameEnd:])
	if extern {
		c.Key = name
	} else {
		c.Key = pkgPath + "." + name
	}
	if strings.HasPrefix(rest, "(") {
		i := matchParen(rest, 0)
		if i < 0 {
			return nil, fmt.Errorf("bad header %q", s)
		}
		for _, p := range splitTop(rest[1:i]) {
			p = strings.TrimSpace(p)
			if p != "" {
				c.Params = append(c.Params, strings.Fields(p)[0])
			}
		}
		rest = strings.TrimSpace(rest[i+1:])
		if strings.HasPrefix(rest, "(") {
			j := matchParen(rest, 0)
			if j < 0 {
				return nil, fmt.Errorf("bad header %q", s)
			}
			for _, p := range splitTop(rest[1:j]) {
				p = strings.TrimSpace(p)
				if p != "" {
					c.Results = append(c.Results, strings.Fields(p)[0])
				}
			}
		} else if rest != "" {
			c.Results = append(c.Results, strings.Fields(rest)[0])
		}
	}
	return c, nil
}

func matchParen(s string, i int) int {
	d := 0
	for ; i < len(s); i++ {
		if s[i] == '(' {
			d++
		} else if s[i] == ')' {
			d--
			if d == 0 {
				return i
			}
		}
	}
	return -1
}

// spec name(a T, b U) R = expr        (recursive if it mentions itself)
func parseSpecFunc(s string) (*SpecFunc, error) {
	i := strings.Index(s, "(")
	if i < 0 {
		return nil, fmt.Errorf("bad spec function %q", s)
	}
	sf := &SpecFunc{Name: strings.TrimSpace(s[:i])}
	j := matchParen(s, i)
	if j < 0 {
		return nil, fmt.Errorf("bad spec function %q", s)
	}
	for _, p := range splitTop(s[i+1 : j]) {
		f := strings.Fields(strings.TrimSpace(p))
		if len(f) == 0 {
			continue
		}
		qv := QVar{Name: f[0]}
		if len(f) > 1 {
			qv.Type = strings.Join(f[1:], "")
		}
		sf.Params = append(sf.Params, qv)
	}
	rest := strings.TrimSpace(s[j+1:])
	k := strings.Index(rest, "=")
	if k < 0 {
		return nil, fmt.Errorf("spec function %s needs '= expr'", sf.Name)
	}
	sf.Result = strings.TrimSpace(rest[:k])
	sf.BodyTxt = strings.TrimSpace(rest[k+1:])
	e, err := ParseExpr(sf.BodyTxt)
	if err != nil {
		return nil, fmt.Errorf("spec %s: %v", sf.Name, err)
	}
	sf.Body = e
	sf.Rec = mentions(e, sf.Name)
	return sf, nil
}

func mentions(e Expr, name string) bool {
	found := false
	walkExpr(e, func(x Expr) {
		if c, ok := x.(*ECall); ok {
			if id, ok := c.Fun.(*EIdent); ok && id.Name == name {
				found = true
			}
		}
	})
	return found
}

func walkExpr(e Expr, f func(Expr)) {
	if e == nil {
		return
	}
	f(e)
	switch x := e.(type) {
	case *EUnary:
		walkExpr(x.X, f)
	case *EBinary:
		walkExpr(x.X, f)
		walkExpr(x.Y, f)
	case *ECall:
		walkExpr(x.Fun, f)
		for _, a := range x.Args {
			walkExpr(a, f)
		}
	case *EIndex:
		walkExpr(x.X, f)
		walkExpr(x.I, f)
	case *ESlice:
		walkExpr(x.X, f)
		if x.Lo != nil {
			walkExpr(x.Lo, f)
		}
		if x.Hi != nil {
			walkExpr(x.Hi, f)
		}
	case *EField:
		walkExpr(x.X, f)
	case *EQuant:
		walkExpr(x.Body, f)
	case *EOld:
		walkExpr(x.X, f)
	}
}

// ECondLoc: a modifies location guarded by a condition (`modifies x[*] if c`).
type ECondLoc struct {
	Loc  Expr
	Cond Expr
}

func (e *ECondLoc) exprString() string { return e.Loc.exprString() + " if " + e.Cond.exprString() }

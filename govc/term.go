package govc

import (
	"fmt"
	"math/big"
	"strings"
)

// Term is an SMT-LIB term with its sort. Terms are immutable trees; sharing is
// by pointer. Heap updates and call results are named by fresh constants in the
// executor, so trees stay linear in the path length.
type Term struct {
	Op   string // operator or leaf text
	Args []*Term
	Sort string
	str  string
}

func (t *Term) String() string {
	if t.str != "" {
		return t.str
	}
	if len(t.Args) == 0 {
		t.str = t.Op
		return t.str
	}
	var sb strings.Builder
	sb.WriteByte('(')
	sb.WriteString(t.Op)
	for _, a := range t.Args {
		sb.WriteByte(' ')
		sb.WriteString(a.String())
	}
	sb.WriteByte(')')
	t.str = sb.String()
	return t.str
}

func Leaf(s, sort string) *Term { return &Term{Op: s, Sort: sort, str: s} }
func App(op, sort string, args ...*Term) *Term {
	for _, a := range args {
		if a == nil {
			panic("nil argument to " + op)
		}
	}
	t := &Term{Op: op, Args: args, Sort: sort}
	t.String() // eager: terms are shared between solver goroutines
	return t
}

var (
	True  = Leaf("true", "Bool")
	False = Leaf("false", "Bool")
)

func IntLit(n int64) *Term {
	if n < 0 {
		// avoid -2^63 overflow on negate
		b := big.NewInt(n)
		b.Neg(b)
		return Leaf("(- "+b.String()+")", "Int")
	}
	return Leaf(fmt.Sprint(n), "Int")
}
func BigLit(b *big.Int) *Term {
	if b.Sign() < 0 {
		c := new(big.Int).Neg(b)
		return Leaf("(- "+c.String()+")", "Int")
	}
	return Leaf(b.String(), "Int")
}

func (t *Term) IsTrue() bool  { return t.Op == "true" && len(t.Args) == 0 }
func (t *Term) IsFalse() bool { return t.Op == "false" && len(t.Args) == 0 }

// intVal returns the literal value if t is an integer literal.
func (t *Term) intVal() (*big.Int, bool) {
	if len(t.Args) != 0 || t.Sort != "Int" {
		return nil, false
	}
	s := t.Op
	neg := false
	if strings.HasPrefix(s, "(- ") && strings.HasSuffix(s, ")") {
		neg = true
		s = s[3 : len(s)-1]
	}
	if s == "" || s[0] < '0' || s[0] > '9' {
		return nil, false
	}
	b, ok := new(big.Int).SetString(s, 10)
	if !ok {
		return nil, false
	}
	if neg {
		b.Neg(b)
	}
	return b, true
}

func Not(a *Term) *Term {
	if a.IsTrue() {
		return False
	}
	if a.IsFalse() {
		return True
	}
	if a.Op == "not" && len(a.Args) == 1 {
		return a.Args[0]
	}
	return App("not", "Bool", a)
}

func And(as ...*Term) *Term {
	var out []*Term
	for _, a := range as {
		if a == nil || a.IsTrue() {
			continue
		}
		if a.IsFalse() {
			return False
		}
		if a.Op == "and" && len(a.Args) > 0 {
			out = append(out, a.Args...)
			continue
		}
		out = append(out, a)
	}
	if len(out) == 0 {
		return True
	}
	if len(out) == 1 {
		return out[0]
	}
	return App("and", "Bool", out...)
}

func Or(as ...*Term) *Term {
	var out []*Term
	for _, a := range as {
		if a == nil || a.IsFalse() {
			continue
		}
		if a.IsTrue() {
			return True
		}
		if a.Op == "or" && len(a.Args) > 0 {
			out = append(out, a.Args...)
			continue
		}
		out = append(out, a)
	}
	if len(out) == 0 {
		return False
	}
	if len(out) == 1 {
		return out[0]
	}
	return App("or", "Bool", out...)
}

func Implies(a, b *Term) *Term {
	if a.IsTrue() {
		return b
	}
	if a.IsFalse() || b.IsTrue() {
		return True
	}
	return App("=>", "Bool", a, b)
}

func Ite(c, a, b *Term) *Term {
	if c.IsTrue() {
		return a
	}
	if c.IsFalse() {
		return b
	}
	if a == b || a.String() == b.String() {
		return a
	}
	if a.Sort == "Bool" {
		if a.IsTrue() && b.IsFalse() {
			return c
		}
		if a.IsFalse() && b.IsTrue() {
			return Not(c)
		}
	}
	return App("ite", a.Sort, c, a, b)
}

func Eq(a, b *Term) *Term {
	if a == b {
		return True
	}
	if av, ok := a.intVal(); ok {
		if bv, ok := b.intVal(); ok {
			if av.Cmp(bv) == 0 {
				return True
			}
			return False
		}
	}
	if a.Sort == "Bool" {
		if b.IsTrue() {
			return a
		}
		if b.IsFalse() {
			return Not(a)
		}
		if a.IsTrue() {
			return b
		}
		if a.IsFalse() {
			return Not(b)
		}
	}
	if a.String() == b.String() {
		return True
	}
	return App("=", "Bool", a, b)
}

func cmpInt(op string, a, b *Term) *Term {
	if av, ok := a.intVal(); ok {
		if bv, ok := b.intVal(); ok {
			c := av.Cmp(bv)
			var r bool
			switch op {
			case "<":
				r = c < 0
			case "<=":
				r = c <= 0
			case ">":
				r = c > 0
			case ">=":
				r = c >= 0
			}
			if r {
				return True
			}
			return False
		}
	}
	return App(op, "Bool", a, b)
}
func Lt(a, b *Term) *Term { return cmpInt("<", a, b) }
func Le(a, b *Term) *Term { return cmpInt("<=", a, b) }
func Gt(a, b *Term) *Term { return cmpInt(">", a, b) }
func Ge(a, b *Term) *Term { return cmpInt(">=", a, b) }

func Add(a, b *Term) *Term {
	av, aok := a.intVal()
	bv, bok := b.intVal()
	if aok && bok {
		return BigLit(new(big.Int).Add(av, bv))
	}
	if aok && av.Sign() == 0 {
		return b
	}
	if bok && bv.Sign() == 0 {
		return a
	}
	return App("+", "Int", a, b)
}
func Sub(a, b *Term) *Term {
	av, aok := a.intVal()
	bv, bok := b.intVal()
	if aok && bok {
		return BigLit(new(big.Int).Sub(av, bv))
	}
	if bok && bv.Sign() == 0 {
		return a
	}
	return App("-", "Int", a, b)
}
func Mul(a, b *Term) *Term {
	av, aok := a.intVal()
	bv, bok := b.intVal()
	if aok && bok {
		return BigLit(new(big.Int).Mul(av, bv))
	}
	if aok && av.Cmp(big.NewInt(1)) == 0 {
		return b
	}
	if bok && bv.Cmp(big.NewInt(1)) == 0 {
		return a
	}
	return App("*", "Int", a, b)
}
func Neg(a *Term) *Term {
	if av, ok := a.intVal(); ok {
		return BigLit(new(big.Int).Neg(av))
	}
	return App("-", "Int", a)
}

// Euclidean mod/div of SMT-LIB (divisor literal and positive in all our uses of EMod).
func EMod(a, m *Term) *Term {
	if av, ok := a.intVal(); ok {
		if mv, ok := m.intVal(); ok && mv.Sign() > 0 {
			return BigLit(new(big.Int).Mod(av, mv))
		}
	}
	return App("mod", "Int", a, m)
}
func EDiv(a, m *Term) *Term {
	if av, ok := a.intVal(); ok {
		if mv, ok := m.intVal(); ok && mv.Sign() > 0 {
			q, _ := new(big.Int).DivMod(av, mv, new(big.Int))
			return BigLit(q)
		}
	}
	return App("div", "Int", a, m)
}

// TDiv / TRem: Go semantics (truncation toward zero).
func TDiv(a, b *Term) *Term {
	if av, ok := a.intVal(); ok {
		if bv, ok := b.intVal(); ok && bv.Sign() != 0 {
			return BigLit(new(big.Int).Quo(av, bv))
		}
	}
	return App("tdiv", "Int", a, b)
}
func TRem(a, b *Term) *Term {
	if av, ok := a.intVal(); ok {
		if bv, ok := b.intVal(); ok && bv.Sign() != 0 {
			return BigLit(new(big.Int).Rem(av, bv))
		}
	}
	return App("trem", "Int", a, b)
}

func Select(arr, idx *Term) *Term {
	es := arrElemSort(arr.Sort)
	// select over store with syntactically equal index
	if arr.Op == "store" && len(arr.Args) == 3 {
		if arr.Args[1] == idx || arr.Args[1].String() == idx.String() {
			return arr.Args[2]
		}
		if iv, ok := idx.intVal(); ok {
			if jv, ok := arr.Args[1].intVal(); ok && iv.Cmp(jv) != 0 {
				return Select(arr.Args[0], idx)
			}
		}
	}
	return App("select", es, arr, idx)
}
func Store(arr, idx, v *Term) *Term {
	return App("store", arr.Sort, arr, idx, v)
}

// arrElemSort parses "(Array I E)" and returns E.
func arrElemSort(s string) string {
	if !strings.HasPrefix(s, "(Array ") {
		panic("not an array sort: " + s)
	}
	body := s[len("(Array ") : len(s)-1]
	// skip index sort
	i := skipSort(body, 0)
	return strings.TrimSpace(body[i:])
}
func arrIdxSort(s string) string {
	body := s[len("(Array ") : len(s)-1]
	i := skipSort(body, 0)
	return strings.TrimSpace(body[:i])
}
func skipSort(s string, i int) int {
	for i < len(s) && s[i] == ' ' {
		i++
	}
	if i < len(s) && s[i] == '(' {
		d := 0
		for ; i < len(s); i++ {
			if s[i] == '(' {
				d++
			} else if s[i] == ')' {
				d--
				if d == 0 {
					return i + 1
				}
			}
		}
		return i
	}
	for i < len(s) && s[i] != ' ' {
		i++
	}
	return i
}
func ArraySort(idx, elem string) string { return "(Array " + idx + " " + elem + ")" }

// Datatype access with constructor folding.
func Sel(dt *DT, field int, v *Term) *Term {
	if v.Op == dt.Ctor && len(v.Args) == len(dt.Fields) {
		return v.Args[field]
	}
	return App(dt.Fields[field].Sel, dt.Fields[field].Sort, v)
}
func Mk(dt *DT, args ...*Term) *Term {
	if len(args) != len(dt.Fields) {
		panic("Mk arity " + dt.Name)
	}
	if len(args) == 0 {
		return Leaf(dt.Ctor, dt.Name)
	}
	// (mk (f0 x) (f1 x) ...) == x
	if len(args) > 0 && args[0].Op == dt.Fields[0].Sel && len(args[0].Args) == 1 {
		x := args[0].Args[0]
		same := true
		for i, a := range args {
			if a.Op != dt.Fields[i].Sel || len(a.Args) != 1 || (a.Args[0] != x && a.Args[0].String() != x.String()) {
				same = false
				break
			}
		}
		if same {
			return x
		}
	}
	return App(dt.Ctor, dt.Name, args...)
}
func Upd(dt *DT, v *Term, field int, nv *Term) *Term {
	args := make([]*Term, len(dt.Fields))
	for i := range dt.Fields {
		if i == field {
			args[i] = nv
		} else {
			args[i] = Sel(dt, i, v)
		}
	}
	return Mk(dt, args...)
}

// DT is a single-constructor datatype (struct, fixed array, slice header, string, interface).
type DT struct {
	Name   string
	Ctor   string
	Fields []DTField
}
type DTField struct {
	Sel  string
	Sort string
}

func (d *DT) Decl() string {
	var sb strings.Builder
	fmt.Fprintf(&sb, "(declare-datatypes ((%s 0)) (((%s", d.Name, d.Ctor)
	for _, f := range d.Fields {
		fmt.Fprintf(&sb, " (%s %s)", f.Sel, f.Sort)
	}
	sb.WriteString("))))")
	return sb.String()
}

func Forall(vars []*Term, body *Term, pats ...*Term) *Term {
	if body.IsTrue() {
		return True
	}
	if len(vars) == 0 {
		return body
	}
	var sb strings.Builder
	sb.WriteString("(forall (")
	for _, v := range vars {
		fmt.Fprintf(&sb, "(%s %s)", v.Op, v.Sort)
	}
	sb.WriteString(") ")
	if len(pats) > 0 {
		sb.WriteString("(! ")
		sb.WriteString(body.String())
		for _, p := range pats {
			sb.WriteString(" :pattern (")
			sb.WriteString(p.String())
			sb.WriteString(")")
		}
		sb.WriteString(")")
	} else {
		sb.WriteString(body.String())
	}
	sb.WriteString(")")
	return Leaf(sb.String(), "Bool")
}
func Exists(vars []*Term, body *Term) *Term {
	if len(vars) == 0 {
		return body
	}
	var sb strings.Builder
	sb.WriteString("(exists (")
	for _, v := range vars {
		fmt.Fprintf(&sb, "(%s %s)", v.Op, v.Sort)
	}
	sb.WriteString(") ")
	sb.WriteString(body.String())
	sb.WriteString(")")
	return Leaf(sb.String(), "Bool")
}

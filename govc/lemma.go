package govc

import (
	"fmt"
	"go/types"
	"time"

	"golang.org/x/tools/go/ssa"
)

func (v *Verifier) findLemma(name string) (*Lemma, *ContractFile) {
	for _, cf := range v.Contracts {
		for _, l := range cf.Lemmas {
			if l.Name == name {
				return l, cf
			}
		}
	}
	return nil, nil
}

// ProveLemma proves a closed contract-language formula from spec-function definitions only
// (plus the lemmas it names with `uses`, which are proved separately).
func (v *Verifier) ProveLemma(name string, so *SolveOpts) *UnitResult {
	start := time.Now()
	res := &UnitResult{Key: "lemma:" + name}
	l, cf := v.findLemma(name)
	u := &Unit{V: v, W: NewWorld(FloatIEEE), Obls: map[string]*Obligation{}, siteNames: map[string]string{}, kindCount: map[string]int{},
		Inlined: map[string]bool{}, Assumed: map[string]bool{}, Uncontracted: map[string]bool{}, UsedContracts: map[string]bool{},
		closures: map[string]*closureVal{}, specDefs: map[string]*specDef{}, heapElemTypes: map[string]types.Type{}, globalInit: map[*ssa.Global]*Term{},
		ParamVals: map[string]Value{}}
	res.Unit = u
	fail := func(msg string) *UnitResult {
		res.Refused = msg
		res.Obligations = []*Obligation{{Name: "lemma:" + name, Kind: "lemma", Desc: msg, Queries: []*Query{{Goal: False, Result: "unknown", Backend: "generator"}}}}
		return res
	}
	if l == nil {
		return fail("STALE-CONTRACT: lemma not found")
	}
	u.W = NewWorld(l.Floats)
	u.Pkg = v.SSAPkgs[cf.PkgPath]
	var out *UnitResult
	func() {
		defer func() {
			if r := recover(); r != nil {
				if ue, ok := r.(unsupportedErr); ok {
					out = fail(string(ue))
					return
				}
				panic(r)
			}
		}()
		s := &State{Heaps: map[string]*Term{}, Globals: map[*ssa.Global]*Term{}}
		u.W.Declare("alloc0", "(declare-const alloc0 Int)")
		s.Alloc = Leaf("alloc0", "Int")
		s.assume(Gt(s.Alloc, IntLit(0)))
		s.Entry = &snapshot{Heaps: map[string]*Term{}, Alloc: s.Alloc}
		env := &SpecEnv{u: u, s: s, names: map[string]Value{}, cf: cf, pkg: u.Pkg.Pkg}
		for _, dep := range l.Uses {
			dl, dcf := v.findLemma(dep)
			if dl == nil {
				panic(unsupportedErr("lemma " + name + " uses unknown lemma " + dep))
			}
			denv := &SpecEnv{u: u, s: s, names: map[string]Value{}, cf: dcf, pkg: v.SSAPkgs[dcf.PkgPath].Pkg}
			s.assume(u.evalBool(denv, dl.E))
		}
		e := l.E
		// skolemise leading universal quantifiers
		for {
			q, ok := e.(*EQuant)
			if !ok || !q.Forall {
				break
			}
			for _, qv := range q.Vars {
				ty := types.Type(intType)
				if qv.Type != "" {
					ty = u.resolveType(env, qv.Type)
				}
				env.names[qv.Name] = u.symbolic(s, "p_"+qv.Name, ty)
			}
			e = q.Body
		}
		// split top-level implication and conjunctions
		goal := e
		if b, ok := e.(*EBinary); ok && b.Op == "==>" {
			s.assume(u.evalBool(env, b.X))
			goal = b.Y
		}
		var conj []Expr
		var split func(x Expr)
		split = func(x Expr) {
			if b, ok := x.(*EBinary); ok && b.Op == "&&" {
				split(b.X)
				split(b.Y)
				return
			}
			conj = append(conj, x)
		}
		split(goal)
		for i, c := range conj {
			nm := fmt.Sprintf("lemma:%s.%d", name, i+1)
			if len(conj) == 1 {
				nm = "lemma:" + name
			}
			u.oblige(s, nm, "lemma", 0, c.exprString(), u.evalBool(env, c))
		}
	}()
	if out != nil {
		return out
	}
	obls := u.Obligations()
	SolveAll(obls, u.W.Prelude(), so)
	res.Obligations = obls
	res.Seconds = time.Since(start).Seconds()
	res.CanaryOK = 1
	return res
}

package govc

import (
	"fmt"
	"go/types"
	"time"

	"golang.org/x/tools/go/ssa"
)

func (v *Verifier) findLemma(name string) (*Lemma, *ContractFile) {
	for _, cf := range v.Contracts {
		for _, l := range cf.Lemmas {
			if l.Name == name {
				return l, cf
			}
		}
	}
	return nil, nil
}

// ProveLemma proves a closed contract-language formula from spec-function definitions only
// (plus the lemmas it names with `uses`, which are proved separately).
func (v *Verifier) ProveLemma(name string, so *SolveOpts) *UnitResult {
	start := time.Now()
	res := &UnitResult{Key: "lemma:" + name}
	l, cf := v.findLemma(name)
	u := &Unit{V: v, W: NewWorld(FloatIEEE), Obls: map[string]*Obligation{}, siteNames: map[string]string{}, kindCount: map[string]int{},
		Inlined: map[string]bool{}, Assumed: map[string]bool{}, Uncontracted: map[string]bool{}, UsedContracts: map[string]bool{},
		closures: map[string]*closureVal{}, specDefs: map[string]*specDef{}, heapElemTypes: map[string]types.Type{}, globalInit: map[*ssa.Global]*Term{},
		ParamVals: map[string]Value{}}
	res.Unit = u
	fail := func(msg string) *UnitResult {
		res.Refused = msg
		res.Obligations = []*Obligation{{Name: "lemma:" + name, Kind: "lemma", Desc: msg, Queries: []*Query{{Goal: False, Result: "unknown", Backend: "generator"}}}}
		return res
	}
	if l == nil {
		return fail("STALE-CONTRACT: lemma not found")
	}
	u.W = NewWorld(l.Floats)
	u.W.IntBV = l.BV
	u.Pkg = v.SSAPkgs[cf.PkgPath]
	var out *UnitResult
	func() {
		defer func() {
			if r := recover(); r != nil {
				if ue, ok := r.(unsupportedErr); ok {
					out = fail(string(ue))
					return
				}
				panic(r)
			}
		}()
		s := &State{Heaps: map[string]*Term{}, Globals: map[*ssa.Global]*Term{}}
		u.W.Declare("alloc0", "(declare-const alloc0 Int)")
		s.Alloc = Leaf("alloc0", "Int")
		s.assume(Gt(s.Alloc, IntLit(0)))
		s.Entry = &snapshot{Heaps: map[string]*Term{}, Alloc: s.Alloc}
		env := &SpecEnv{u: u, s: s, names: map[string]Value{}, cf: cf, pkg: u.Pkg.Pkg}
		e := l.E
		// skolemise leading universal quantifiers
		for {
			q, ok := e.(*EQuant)
			if !ok || !q.Forall {
				break
			}
			for _, qv := range q.Vars {
				ty := types.Type(intType)
				if qv.Type != "" {
					ty = u.resolveType(env, qv.Type)
				}
				env.names[qv.Name] = u.symbolic(s, "p_"+qv.Name, ty)
			}
			e = q.Body
		}
		// used lemmas: `uses name` asserts the quantified lemma, `uses name(args)` its instance
		for _, dep := range l.Uses {
			de, err := ParseExpr(dep)
			if err != nil {
				panic(unsupportedErr("lemma " + name + ": bad uses clause: " + err.Error()))
			}
			dname := dep
			var dargs []Expr
			if c, ok := de.(*ECall); ok {
				dname = c.Fun.exprString()
				dargs = c.Args
			}
			dl, dcf := v.findLemma(dname)
			if dl == nil {
				panic(unsupportedErr("lemma " + name + " uses unknown lemma " + dname))
			}
			u.Assumed["lemma "+dname+" (proved as its own obligation) used in lemma "+name] = true
			denv := &SpecEnv{u: u, s: s, names: map[string]Value{}, cf: dcf, pkg: v.SSAPkgs[dcf.PkgPath].Pkg}
			body := dl.E
			if len(dargs) > 0 {
				q, ok := body.(*EQuant)
				if !ok || !q.Forall || len(q.Vars) != len(dargs) {
					panic(unsupportedErr("lemma " + name + ": wrong number of arguments for " + dname))
				}
				for i, qv := range q.Vars {
					denv.names[qv.Name] = u.evalSpec(env, dargs[i])
				}
				body = q.Body
			}
			s.assume(u.evalBool(denv, body))
		}
		// split top-level implication and conjunctions
		goal := e
		if b, ok := e.(*EBinary); ok && b.Op == "==>" {
			s.assume(u.evalBool(env, b.X))
			goal = b.Y
		}
		var conj []Expr
		var split func(x Expr)
		split = func(x Expr) {
			if b, ok := x.(*EBinary); ok && b.Op == "&&" {
				split(b.X)
				split(b.Y)
				return
			}
			conj = append(conj, x)
		}
		split(goal)
		for i, c := range conj {
			nm := fmt.Sprintf("lemma:%s.%d", name, i+1)
			if len(conj) == 1 {
				nm = "lemma:" + name
			}
			u.oblige(s, nm, "lemma", 0, c.exprString(), u.evalBool(env, c))
		}
	}()
	if out != nil {
		return out
	}
	obls := u.Obligations()
	SolveAll(obls, u.W.Prelude(), so)
	res.Obligations = obls
	res.Seconds = time.Since(start).Seconds()
	res.CanaryOK = 1
	return res
}

// ProveFoldLemma proves, by induction on the count parameter, the extensionality statement that
// `specfold f p n` turns into an axiom: for all p, q, n and heaps H1, H2 of p's elements, if
// H1[p][k] == H2[q][k] for all 0 <= k < n then f(p, .., n) over H1 equals f(q, .., n) over H2.
// One query: skolem constants, the hypothesis, the induction hypothesis at n-1 (only for n > 0),
// the definition of f (define-fun-rec, unfolded by the solver), goal at n.
func (v *Verifier) ProveFoldLemma(name string, cf *ContractFile, fm FloatMode, so *SolveOpts) *UnitResult {
	start := time.Now()
	key := "lemma:fold:" + name
	if fm != FloatIEEE {
		key += fmt.Sprintf("@floats%d", int(fm))
	}
	res := &UnitResult{Key: key}
	u := &Unit{V: v, W: NewWorld(fm), Obls: map[string]*Obligation{}, siteNames: map[string]string{}, kindCount: map[string]int{},
		Inlined: map[string]bool{}, Assumed: map[string]bool{}, Uncontracted: map[string]bool{}, UsedContracts: map[string]bool{},
		closures: map[string]*closureVal{}, specDefs: map[string]*specDef{}, heapElemTypes: map[string]types.Type{}, globalInit: map[*ssa.Global]*Term{},
		ParamVals: map[string]Value{}, NoFoldAxioms: true}
	res.Unit = u
	fail := func(msg string) *UnitResult {
		res.Refused = msg
		res.Obligations = []*Obligation{{Name: key, Kind: "lemma", Desc: msg, Queries: []*Query{{Goal: False, Result: "unknown", Backend: "generator"}}}}
		return res
	}
	sf := cf.SpecFuncs[name]
	if sf == nil || sf.FoldSlice == "" {
		return fail("STALE-CONTRACT: fold spec function not found")
	}
	u.Pkg = v.SSAPkgs[cf.PkgPath]
	var out *UnitResult
	func() {
		defer func() {
			if r := recover(); r != nil {
				if ue, ok := r.(unsupportedErr); ok {
					out = fail(string(ue))
					return
				}
				panic(r)
			}
		}()
		s := &State{Heaps: map[string]*Term{}, Globals: map[*ssa.Global]*Term{}}
		u.W.Declare("alloc0", "(declare-const alloc0 Int)")
		s.Alloc = Leaf("alloc0", "Int")
		s.Entry = &snapshot{Heaps: map[string]*Term{}, Alloc: s.Alloc}
		env := &SpecEnv{u: u, s: s, names: map[string]Value{}, cf: cf, pkg: u.Pkg.Pkg}
		d := u.defineSpecFunc(env, sf)
		// rebuild the parameter list the way defineSpecFunc does
		var params []string
		for i, p := range sf.Params {
			params = append(params, fmt.Sprintf("(a_%s %s)", p.Name, u.W.SortOf(d.paramTypes[i])))
		}
		for _, k := range d.heapKeys {
			params = append(params, fmt.Sprintf("(h_%s %s)", sanitize(k), u.heapSort(k, u.W.SortOf(d.heapElem[k]))))
		}
		fp := u.foldPartsOf(sf, d, params)
		if fp == nil {
			panic(unsupportedErr("specfold " + name + ": bad parameters"))
		}
		a := make([]*Term, len(fp.names))
		b := make([]*Term, len(fp.names))
		for i := range fp.names {
			a[i] = u.fresh(s, "fl_"+fp.names[i], fp.sorts[i])
			b[i] = a[i]
			if i == fp.iSlice || i == fp.iHeap {
				b[i] = u.fresh(s, "fl2_"+fp.names[i], fp.sorts[i])
			}
		}
		w := u.W
		agree := func(n *Term) *Term {
			k := Leaf("k!f", "Int")
			lhs := Select(Select(a[fp.iHeap], w.SRef(a[fp.iSlice])), w.At(w.SOff(a[fp.iSlice]), k))
			rhs := Select(Select(b[fp.iHeap], w.SRef(b[fp.iSlice])), w.At(w.SOff(b[fp.iSlice]), k))
			return Forall([]*Term{k}, Implies(And(Le(IntLit(0), k), Lt(k, n)), Eq(lhs, rhs)), lhs)
		}
		appAt := func(args []*Term, n *Term) *Term {
			c := append([]*Term(nil), args...)
			c[fp.iN] = n
			return App(d.smtName, d.resSort, c...)
		}
		n := a[fp.iN]
		s.assume(agree(n))
		nm1 := Sub(n, IntLit(1))
		s.assume(Implies(Gt(n, IntLit(0)), Implies(agree(nm1), Eq(appAt(a, nm1), appAt(b, nm1)))))
		u.oblige(s, key, "lemma", 0, "extensionality of "+name+" over the first "+sf.FoldN+" elements of "+sf.FoldSlice+" (induction on "+sf.FoldN+")", Eq(appAt(a, n), appAt(b, n)))
	}()
	if out != nil {
		return out
	}
	obls := u.Obligations()
	SolveAll(obls, u.W.Prelude(), so)
	res.Obligations = obls
	res.Seconds = time.Since(start).Seconds()
	res.CanaryOK = 1
	return res
}

package govc

import (
	"os"
	"fmt"
	"go/constant"
	"go/token"
	"go/types"
	"math"
	"sort"
	"strings"

	"golang.org/x/tools/go/ssa"
)

// ---------- loops ----------

type loopInfo struct {
	heads []*ssa.BasicBlock                            // in block-index order (== source order)
	body  map[*ssa.BasicBlock]map[*ssa.BasicBlock]bool // head -> blocks of the natural loop
}

func analyzeLoops(fn *ssa.Function) *loopInfo {
	li := &loopInfo{body: map[*ssa.BasicBlock]map[*ssa.BasicBlock]bool{}}
	for _, b := range fn.Blocks {
		for _, succ := range b.Succs {
			if succ.Dominates(b) { // back edge b -> succ
				h := succ
				set := li.body[h]
				if set == nil {
					set = map[*ssa.BasicBlock]bool{h: true}
					li.body[h] = set
					li.heads = append(li.heads, h)
				}
				// natural loop: nodes reaching b without passing h
				stack := []*ssa.BasicBlock{b}
				for len(stack) > 0 {
					x := stack[len(stack)-1]
					stack = stack[:len(stack)-1]
					if set[x] {
						continue
					}
					set[x] = true
					stack = append(stack, x.Preds...)
				}
			}
		}
	}
	sort.Slice(li.heads, func(i, j int) bool { return li.heads[i].Index < li.heads[j].Index })
	return li
}

func (v *Verifier) loops(fn *ssa.Function) *loopInfo {
	v.mu.Lock()
	li, ok := v.loopCache[fn]
	v.mu.Unlock()
	if ok {
		return li
	}
	li = analyzeLoops(fn)
	v.mu.Lock()
	v.loopCache[fn] = li
	v.mu.Unlock()
	return li
}

// ---------- effects (what a function may write / allocate), transitive ----------

type effects struct {
	heaps   map[string]bool // heap keys possibly written or allocated in
	all     bool            // unknown: any heap
	allocs  bool
	globals bool
}

func (v *Verifier) effectsOf(fn *ssa.Function, visiting map[*ssa.Function]bool) *effects {
	v.mu.Lock()
	ce, ok := v.effCache[fn]
	v.mu.Unlock()
	if ok {
		return ce
	}
	e := &effects{heaps: map[string]bool{}}
	if fn.Blocks == nil {
		e.all = true
		e.allocs = true
		return e
	}
	if visiting[fn] {
		return e // recursion: fixpoint from the other occurrences
	}
	visiting[fn] = true
	defer delete(visiting, fn)
	var blocks []*ssa.BasicBlock
	blocks = append(blocks, fn.Blocks...)
	v.scanEffects(blocks, e, visiting)
	if len(visiting) == 1 {
		v.mu.Lock()
		v.effCache[fn] = e
		v.mu.Unlock()
	}
	return e
}

func elemOfSliceLike(t types.Type) types.Type {
	switch u := t.Underlying().(type) {
	case *types.Slice:
		return u.Elem()
	case *types.Array:
		return u.Elem()
	case *types.Pointer:
		if a, ok := u.Elem().Underlying().(*types.Array); ok {
			return a.Elem()
		}
	}
	return nil
}

func rootOfAddr(v ssa.Value) ssa.Value {
	for {
		switch x := v.(type) {
		case *ssa.FieldAddr:
			v = x.X
		case *ssa.IndexAddr:
			if _, ok := x.X.Type().Underlying().(*types.Slice); ok {
				return x
			}
			v = x.X
		default:
			return v
		}
	}
}

func (v *Verifier) scanEffects(blocks []*ssa.BasicBlock, e *effects, visiting map[*ssa.Function]bool) {
	for _, b := range blocks {
		for _, in := range b.Instrs {
			switch x := in.(type) {
			case *ssa.Store:
				root := rootOfAddr(x.Addr)
				switch r := root.(type) {
				case *ssa.Alloc:
					if r.Heap {
						pt := r.Type().(*types.Pointer).Elem()
						if a, ok := pt.Underlying().(*types.Array); ok {
							e.heaps["S:"+TypeKey(a.Elem())] = true
						} else {
							e.heaps["P:"+TypeKey(pt)] = true
						}
					}
				case *ssa.IndexAddr: // slice element
					e.heaps["S:"+TypeKey(elemOfSliceLike(r.X.Type()))] = true
				case *ssa.Global:
					e.globals = true
				default:
					// store through a pointer value
					if pt, ok := root.Type().Underlying().(*types.Pointer); ok {
						if a, ok := pt.Elem().Underlying().(*types.Array); ok {
							e.heaps["S:"+TypeKey(a.Elem())] = true
						} else {
							e.heaps["P:"+TypeKey(pt.Elem())] = true
						}
					} else {
						e.all = true
					}
				}
			case *ssa.FieldAddr:
				// the address of a field that escapes (passed on, stored, returned) may be written
				// through later under another type's heap key: count its struct as possibly written
				if addrEscapes(x) {
					if pt, ok := x.X.Type().Underlying().(*types.Pointer); ok {
						if root, isAlloc := rootOfAddr(x.X).(*ssa.Alloc); !isAlloc || root.Heap {
							e.heaps["P:"+TypeKey(pt.Elem())] = true
						}
					}
				}
			case *ssa.Alloc:
				if x.Heap {
					e.allocs = true
					pt := x.Type().(*types.Pointer).Elem()
					if a, ok := pt.Underlying().(*types.Array); ok {
						e.heaps["S:"+TypeKey(a.Elem())] = true
					} else {
						e.heaps["P:"+TypeKey(pt)] = true
					}
				}
			case *ssa.MakeSlice:
				e.allocs = true
				e.heaps["S:"+TypeKey(x.Type().Underlying().(*types.Slice).Elem())] = true
			case *ssa.MakeMap:
				e.allocs = true
				e.heaps["M:"+TypeKey(x.Type())] = true
				e.heaps["ML:"+TypeKey(x.Type())] = true
			case *ssa.MapUpdate:
				e.heaps["M:"+TypeKey(x.Map.Type())] = true
				e.heaps["ML:"+TypeKey(x.Map.Type())] = true
			case *ssa.MakeClosure:
				e.allocs = true
			case *ssa.Slice:
				// string -> fresh chars handled without heap
			case *ssa.Convert:
				// string <-> []byte allocate
				if _, ok := x.Type().Underlying().(*types.Slice); ok {
					e.allocs = true
					e.heaps["S:"+TypeKey(x.Type().Underlying().(*types.Slice).Elem())] = true
				}
			case *ssa.Call:
				v.callEffects(x.Common(), e, visiting, b.Parent())
			case *ssa.Go, *ssa.Defer:
				e.all = true
				e.allocs = true
			}
		}
	}
}

func (v *Verifier) callEffects(c *ssa.CallCommon, e *effects, visiting map[*ssa.Function]bool, encl *ssa.Function) {
	if c.IsInvoke() {
		// interface method: contract if any, else dispatch over implementers
		impls := v.implementers(c.Value.Type(), c.Method)
		if len(impls) == 0 {
			if ic := v.ifaceContract(c.Value.Type(), c.Method.Name()); ic != nil && ic.Pure {
				return
			}
			// an interface implemented outside /repo (io.Reader, io.Writer, error, ...): ASSUMED (trusted
			// base, same assumption as the symbolic execution of the call) to write only memory
			// reachable from its arguments
			e.allocs = true
			for _, a := range c.Args {
				addReachable(a.Type(), e.heaps, map[string]bool{}, 0)
			}
			return
		}
		for _, f := range impls {
			v.mergeEffects(e, v.effectsOfCallee(f, visiting))
		}
		return
	}
	switch callee := c.Value.(type) {
	case *ssa.Builtin:
		switch callee.Name() {
		case "append":
			e.allocs = true
			e.heaps["S:"+TypeKey(c.Args[0].Type().Underlying().(*types.Slice).Elem())] = true
		case "copy":
			e.heaps["S:"+TypeKey(c.Args[0].Type().Underlying().(*types.Slice).Elem())] = true
		case "delete":
			e.heaps["M:"+TypeKey(c.Args[0].Type())] = true
			e.heaps["ML:"+TypeKey(c.Args[0].Type())] = true
		}
	case *ssa.Function:
		v.mergeEffects(e, v.effectsOfCallee(callee, visiting))
	case *ssa.MakeClosure:
		v.mergeEffects(e, v.effectsOfCallee(callee.Fn.(*ssa.Function), visiting))
	default:
		// function value: unknown effects unless the enclosing contract declares `purefuncs`
		if pc := v.contractFor(encl); pc == nil || !pc.PureFuncs {
			e.all = true
			e.allocs = true
		}
	}
}

func (v *Verifier) effectsOfCallee(f *ssa.Function, visiting map[*ssa.Function]bool) *effects {
	if c := v.contractFor(f); c != nil && (c.Pure) {
		return &effects{heaps: map[string]bool{}}
	}
	if f.Blocks == nil || !v.inRepo(f) {
		// external function
		if known := v.externEffects(f); known != nil {
			return known
		}
		return &effects{all: true, allocs: true, heaps: map[string]bool{}}
	}
	return v.effectsOf(f, visiting)
}

func (v *Verifier) mergeEffects(dst, src *effects) {
	for k := range src.heaps {
		dst.heaps[k] = true
	}
	dst.all = dst.all || src.all
	dst.allocs = dst.allocs || src.allocs
	dst.globals = dst.globals || src.globals
}

// externEffects: effects of functions outside /repo (assumed; listed in the trusted base).
func (v *Verifier) externEffects(f *ssa.Function) *effects {
	k := fnKey(f)
	pure := func() *effects { return &effects{heaps: map[string]bool{}} }
	switch {
	case strings.HasPrefix(k, "math."), strings.HasPrefix(k, "math/bits."), strings.HasPrefix(k, "strings."),
		strings.HasPrefix(k, "unicode"), strings.HasPrefix(k, "strconv.Parse"), strings.HasPrefix(k, "strconv.Atoi"):
		return pure()
	case strings.HasPrefix(k, "fmt.Sprintf"), strings.HasPrefix(k, "fmt.Errorf"), strings.HasPrefix(k, "errors."),
		strings.HasPrefix(k, "fmt.Sprint"), strings.HasPrefix(k, "strconv."):
		return &effects{heaps: map[string]bool{}, allocs: true}
	case strings.HasPrefix(k, "encoding/binary.(littleEndian).Uint"), strings.HasPrefix(k, "encoding/binary.(bigEndian).Uint"):
		return pure()
	case strings.HasPrefix(k, "encoding/binary.(littleEndian).Put"), strings.HasPrefix(k, "encoding/binary.(bigEndian).Put"):
		return &effects{heaps: map[string]bool{"S:uint8": true, "S:byte": true}}
	}
	// default: may write anything reachable from pointer/slice arguments
	e := &effects{heaps: map[string]bool{}, allocs: true}
	sig := f.Signature
	add := func(t types.Type) {
		addReachable(t, e.heaps, map[string]bool{}, 0)
	}
	if sig.Recv() != nil {
		add(sig.Recv().Type())
	}
	for i := 0; i < sig.Params().Len(); i++ {
		add(sig.Params().At(i).Type())
	}
	return e
}

func addReachable(t types.Type, out map[string]bool, seen map[string]bool, depth int) {
	if depth > 4 {
		return
	}
	k := t.String()
	if seen[k] {
		return
	}
	seen[k] = true
	switch u := t.Underlying().(type) {
	case *types.Slice:
		out["S:"+TypeKey(u.Elem())] = true
		addReachable(u.Elem(), out, seen, depth+1)
	case *types.Pointer:
		if a, ok := u.Elem().Underlying().(*types.Array); ok {
			out["S:"+TypeKey(a.Elem())] = true
		} else {
			out["P:"+TypeKey(u.Elem())] = true
		}
		addReachable(u.Elem(), out, seen, depth+1)
	case *types.Struct:
		for i := 0; i < u.NumFields(); i++ {
			addReachable(u.Field(i).Type(), out, seen, depth+1)
		}
	case *types.Array:
		addReachable(u.Elem(), out, seen, depth+1)
	case *types.Map:
		out["M:"+TypeKey(t)] = true
		out["ML:"+TypeKey(t)] = true
	case *types.Interface:
		out["*iface*"] = true
	}
}

// ---------- executing a unit ----------

type execLimits struct {
	MaxPaths int
	MaxSteps int
}

func (u *Unit) run() {
	defer func() {
		if r := recover(); r != nil {
			if ue, ok := r.(unsupportedErr); ok {
				u.W.unsupported(string(ue))
				u.Refused = "unsupported: " + string(ue)
				return
			}
			panic(r)
		}
	}()
	s := u.initialState()
	work := []*State{s}
	steps := 0
	for len(work) > 0 {
		st := work[len(work)-1]
		work = work[:len(work)-1]
		for !st.Dead && len(st.Frames) > 0 {
			steps++
			if steps > 400000 {
				u.Refused = "size: step budget exceeded"
				return
			}
			forks := u.step(st)
			if len(forks) > 0 {
				work = append(work, forks...)
				if len(work)+u.Paths > u.MaxPaths {
					u.Refused = fmt.Sprintf("size: more than %d paths", u.MaxPaths)
					return
				}
			}
		}
		u.Paths++
	}
}

type unsupportedErr string

func (u *Unit) unsup(format string, args ...interface{}) {
	panic(unsupportedErr(fmt.Sprintf(format, args...)))
}

// wfValue returns the well-formedness (type invariant) of a value of Go type t.
func (u *Unit) wf(s *State, t types.Type, v *Term) *Term {
	w := u.W
	switch ut := t.Underlying().(type) {
	case *types.Basic:
		if ut.Info()&types.IsInteger != 0 {
			if w.IntBV {
				return True
			}
			lo, hi, _ := intRange(ut)
			return And(Le(lo, v), Le(v, hi))
		}
		if ut.Info()&types.IsString != 0 {
			return And(Ge(w.StrLen(v), IntLit(0)), Le(w.StrLen(v), Leaf("1099511627776", "Int")))
		}
		if ut.Info()&types.IsFloat != 0 && w.FM == FloatBits {
			return And(App("<=", "Bool", IntLit(0), v), App("<", "Bool", v, pow2(64)))
		}
	case *types.Slice:
		return And(
			Ge(w.SRef(v), IntLit(0)), Lt(w.SRef(v), s.Alloc),
			Ge(w.SOff(v), IntLit(0)), Ge(w.SLen(v), IntLit(0)), Ge(w.SCap(v), w.SLen(v)),
			Le(w.SCap(v), maxElems(ut.Elem())), Le(Add(w.SOff(v), w.SCap(v)), maxElems(ut.Elem())),
			Implies(Eq(w.SRef(v), IntLit(0)), And(Eq(w.SLen(v), IntLit(0)), Eq(w.SCap(v), IntLit(0)), Eq(w.SOff(v), IntLit(0)))))
	case *types.Pointer, *types.Map, *types.Signature, *types.Chan:
		return And(Ge(v, IntLit(0)), Lt(v, s.Alloc))
	case *types.Interface:
		d := w.IfaceDT()
		base := And(Ge(Sel(d, 0, v), IntLit(0)), Implies(Eq(Sel(d, 0, v), IntLit(0)), Eq(Sel(d, 1, v), IntLit(0))))
		if impls := u.V.implementerTypes(t); len(impls) > 0 && len(impls) <= 12 {
			// closed interface (orb.Geometry): the dynamic type is nil or one of the in-repo value kinds
			alts := []*Term{Eq(Sel(d, 0, v), IntLit(0))}
			var payload []*Term
			for _, it := range impls {
				isT := Eq(Sel(d, 0, v), IntLit(int64(w.TypeID(it))))
				alts = append(alts, isT)
				if needsWF(it) {
					if _, nested := it.Underlying().(*types.Interface); !nested {
						payload = append(payload, Implies(isT, u.wf(s, it, u.unbox(s, v, it))))
					}
				}
			}
			base = And(append([]*Term{base}, payload...)...)
			u.Assumed["values of interface "+types.TypeString(t, nil)+" are nil or one of its in-repo value kinds (pointer-to-kind dynamic types such as *orb.Point excluded)"] = true
			return And(base, Or(alts...))
		}
		return base
	case *types.Array:
		d := w.ArrayDT(ut)
		var cs []*Term
		for i := range d.Fields {
			cs = append(cs, u.wf(s, ut.Elem(), Sel(d, i, v)))
		}
		return And(cs...)
	case *types.Struct:
		d := w.StructDT(t)
		var cs []*Term
		for i := range d.Fields {
			cs = append(cs, u.wf(s, ut.Field(i).Type(), Sel(d, i, v)))
		}
		return And(cs...)
	}
	return True
}

func (u *Unit) symbolic(s *State, name string, t types.Type) Value {
	if tup, ok := t.(*types.Tuple); ok {
		var vs []Value
		for i := 0; i < tup.Len(); i++ {
			vs = append(vs, u.symbolic(s, fmt.Sprintf("%s_%d", name, i), tup.At(i).Type()))
		}
		return Value{Tup: vs, Ty: t}
	}
	c := u.fresh(s, name, u.W.SortOf(t))
	s.assume(u.wf(s, t, c))
	return Value{T: c, Ty: t}
}

func (u *Unit) initialState() *State {
	s := &State{Heaps: map[string]*Term{}, Globals: map[*ssa.Global]*Term{}}
	u.W.Declare("alloc0", "(declare-const alloc0 Int)")
	s.Alloc = Leaf("alloc0", "Int")
	s.assume(Gt(s.Alloc, IntLit(0)))
	s.Entry = &snapshot{Heaps: map[string]*Term{}, Alloc: s.Alloc}
	f := &Frame{Fn: u.Fn, Block: u.Fn.Blocks[0], Vals: map[ssa.Value]Value{}, Cells: map[*ssa.Alloc]*Term{}}
	s.Frames = []*Frame{f}
	u.ParamVals = map[string]Value{}
	for i, p := range u.Fn.Params {
		v := u.symbolic(s, "p_"+p.Name(), p.Type())
		f.Vals[p] = v
		u.ParamVals[p.Name()] = v
		u.EntryVals = append(u.EntryVals, v)
		if u.C != nil && i < len(u.C.Params) {
			u.ParamVals[u.C.Params[i]] = v
		}
	}
	// a method's pointer receiver is not nil (calling a method on a nil pointer is the caller's error)
	if recv := u.Fn.Signature.Recv(); recv != nil && len(u.Fn.Params) > 0 {
		if _, ok := recv.Type().Underlying().(*types.Pointer); ok {
			s.assume(Not(Eq(f.Vals[u.Fn.Params[0]].T, IntLit(0))))
			u.Assumed["pointer receivers are not nil"] = true
		}
	}
	for _, fv := range u.Fn.FreeVars {
		// closure analysed standalone: captured cells are arbitrary heap cells
		v := u.symbolic(s, "fv_"+fv.Name(), fv.Type())
		f.Vals[fv] = v
		if _, ok := fv.Type().Underlying().(*types.Pointer); ok && v.T != nil {
			// a captured variable's cell exists
			s.assume(Not(Eq(v.T, IntLit(0))))
		}
	}
	// requires
	if u.C != nil {
		env := u.specEnv(s, nil)
		for _, r := range u.C.Requires {
			t := u.evalBool(env, r.E)
			s.assume(t)
		}
	}
	return s
}

// step executes one instruction of the top frame; returns forked states.
func (u *Unit) step(s *State) []*State {
	f := s.top()
	if f.Idx == 0 {
		// entering a block: loop head handling
		if stop := u.enterBlock(s, f); stop {
			return nil
		}
		if f.Fn == u.Fn && len(s.Frames) == 1 {
			if u.BlockProbes == nil {
				u.BlockProbes = map[int][]*Query{}
			}
			if len(u.BlockProbes[f.Block.Index]) < 12 {
				u.BlockProbes[f.Block.Index] = append(u.BlockProbes[f.Block.Index],
					&Query{Decls: append([]string(nil), s.Decls...), PC: append([]*Term(nil), s.PC...), Goal: False})
			}
		}
	}
	if f.Idx >= len(f.Block.Instrs) {
		u.unsup("fell off block")
	}
	in := f.Block.Instrs[f.Idx]
	f.Idx++
	return u.exec(s, f, in)
}

func (u *Unit) jump(s *State, f *Frame, to *ssa.BasicBlock) {
	// leaving loops whose body does not contain the target
	li := u.V.loops(f.Fn)
	for len(f.Loops) > 0 {
		top := f.Loops[len(f.Loops)-1]
		if li.body[top.Head][to] {
			break
		}
		// an edge into a block that just returns is a `return` from inside the loop, not a way of
		// leaving the loop to carry on after it: `exit` clauses do not apply (`return N:` clauses do)
		_, toReturns := to.Instrs[len(to.Instrs)-1].(*ssa.Return)
		if toReturns {
			// ... unless that block is where the loop head itself goes when the loop is over
			for _, hs := range top.Head.Succs {
				if hs == to {
					toReturns = false
				}
			}
		}
		if top.Spec != nil && len(top.Spec.Exits) > 0 && !toReturns {
			env := u.specEnv(s, f)
			fk := fnKey(f.Fn)
			for i, ex := range top.Spec.Exits {
				name := fmt.Sprintf("%s#exit.%d.%d", shortKey(fk), top.Ord, i+1)
				u.oblige(s, name, "exit", f.Block.Instrs[len(f.Block.Instrs)-1].Pos(), fmt.Sprintf("loop %d is left only when: %s", top.Ord, ex.Text), u.evalBool(env, ex.E))
			}
		}
		if top.Spec != nil && len(top.Spec.ExitAssume) > 0 {
			env := u.specEnv(s, f)
			for _, ex := range top.Spec.ExitAssume {
				u.Assumed[fmt.Sprintf("assumed on leaving loop %d of %s: %s", top.Ord, shortKey(fnKey(f.Fn)), ex.Text)] = true
				s.assume(u.evalBool(env, ex.E))
			}
		}
		f.Loops = f.Loops[:len(f.Loops)-1]
	}
	f.Prev = f.Block
	f.Block = to
	f.Idx = 0
}

func (u *Unit) val(s *State, f *Frame, v ssa.Value) Value {
	switch x := v.(type) {
	case *ssa.Const:
		return u.constVal(x)
	case *ssa.Global:
		return Value{P: &Ptr{Kind: PGlobal, Global: x, ArrLen: -1}, Ty: x.Type()}
	case *ssa.Function:
		return Value{T: u.funcID(x), Ty: x.Type()}
	case *ssa.Builtin:
		u.unsup("builtin as value %s", x.Name())
	}
	if r, ok := f.Vals[v]; ok {
		return r
	}
	u.unsup("no value for %s (%T) in %s", v.Name(), v, f.Fn.Name())
	return Value{}
}

func (u *Unit) funcID(fn *ssa.Function) *Term {
	name := "fn_" + sanitize(fnKey(fn))
	u.W.Declare(name, fmt.Sprintf("(declare-const %s Int)", name))
	u.W.decls = append(u.W.decls, fmt.Sprintf("(assert (> %s 0))", name))
	return Leaf(name, "Int")
}

func (u *Unit) constVal(c *ssa.Const) Value {
	t := c.Type()
	w := u.W
	if c.Value == nil {
		return Value{T: w.Zero(t), Ty: t}
	}
	switch ut := t.Underlying().(type) {
	case *types.Basic:
		switch {
		case ut.Info()&types.IsBoolean != 0:
			if constant.BoolVal(c.Value) {
				return Value{T: True, Ty: t}
			}
			return Value{T: False, Ty: t}
		case ut.Info()&types.IsInteger != 0:
			iv := constant.ToInt(c.Value)
			b, ok := new(bigInt).SetString(iv.ExactString(), 10)
			if !ok {
				u.unsup("integer constant %s", c.Value)
			}
			if w.IntBV {
				bits, _ := intBits(ut)
				return Value{T: bvLit(b, bits), Ty: t}
			}
			return Value{T: BigLit(b), Ty: t}
		case ut.Info()&types.IsFloat != 0:
			fv, _ := constant.Float64Val(constant.ToFloat(c.Value))
			if ut.Kind() == types.Float32 {
				fv = float64(float32(fv))
			}
			return Value{T: w.FConst(fv), Ty: t}
		case ut.Info()&types.IsString != 0:
			return Value{T: w.StrConst(constant.StringVal(c.Value)), Ty: t}
		}
	}
	u.unsup("constant of type %s", t)
	return Value{}
}

// term forces a Value to an SMT term (pointers must be plain heap refs).
func (u *Unit) term(s *State, v Value) *Term {
	if v.T != nil {
		return v.T
	}
	if v.P != nil {
		if v.P.Kind == PCell && len(v.P.Path) == 0 {
			return v.P.Ref
		}
		u.unsup("interior or local pointer escapes (%v)", v.P.Kind)
	}
	u.unsup("tuple used as term")
	return nil
}

// asPtr turns a pointer-typed Value into an address.
func (u *Unit) asPtr(s *State, v Value) *Ptr {
	if v.P != nil {
		return v.P
	}
	pt, ok := v.Ty.Underlying().(*types.Pointer)
	if !ok {
		u.unsup("asPtr on %s", v.Ty)
	}
	if a, ok := pt.Elem().Underlying().(*types.Array); ok {
		// pointer to array: backing store in S-heap
		return &Ptr{Kind: PElem, Ref: v.T, Idx: nil, Elem: a.Elem(), ArrLen: a.Len()}
	}
	return &Ptr{Kind: PCell, Ref: v.T, Elem: pt.Elem(), ArrLen: -1}
}

func (u *Unit) applyPath(base *Term, path []PathStep) *Term {
	for _, st := range path {
		if st.Field >= 0 {
			base = Sel(st.DT, st.Field, base)
		} else {
			// symbolic index: ite chain
			n := len(st.DT.Fields)
			r := Sel(st.DT, n-1, base)
			for i := n - 2; i >= 0; i-- {
				r = Ite(Eq(st.Index, IntLit(int64(i))), Sel(st.DT, i, base), r)
			}
			base = r
		}
	}
	return base
}

func (u *Unit) updatePath(base *Term, path []PathStep, nv *Term) *Term {
	if len(path) == 0 {
		return nv
	}
	st := path[0]
	if st.Field >= 0 {
		inner := u.updatePath(Sel(st.DT, st.Field, base), path[1:], nv)
		return Upd(st.DT, base, st.Field, inner)
	}
	n := len(st.DT.Fields)
	args := make([]*Term, n)
	for i := 0; i < n; i++ {
		old := Sel(st.DT, i, base)
		upd := u.updatePath(old, path[1:], nv)
		args[i] = Ite(Eq(st.Index, IntLit(int64(i))), upd, old)
	}
	return Mk(st.DT, args...)
}

func (u *Unit) load(s *State, f *Frame, p *Ptr, ty types.Type, in ssa.Instruction) Value {
	var base *Term
	switch p.Kind {
	case PLocal:
		b, ok := f.Cells[p.Cell]
		if !ok {
			u.unsup("read of unknown local cell %s", p.Cell.Comment)
		}
		base = b
	case PGlobal:
		base = u.globalVal(s, p.Global)
	case PCell:
		u.check(s, "nil", in, "nil pointer dereference", Not(Eq(p.Ref, IntLit(0))))
		_, h := u.heap(s, "P", p.Elem)
		base = Select(h, p.Ref)
	case PElem:
		u.check(s, "nil", in, "nil pointer dereference", Not(Eq(p.Ref, IntLit(0))))
		_, h := u.heap(s, "S", p.Elem)
		if p.Idx == nil {
			// whole array behind pointer-to-array
			arr, ok := ty.Underlying().(*types.Array)
			if !ok || arr.Len() > 16 || len(p.Path) > 0 {
				u.unsup("load of whole array through pointer")
			}
			dt := u.W.ArrayDT(arr)
			args := make([]*Term, arr.Len())
			for i := range args {
				args[i] = Select(Select(h, p.Ref), IntLit(int64(i)))
			}
			base = Mk(dt, args...)
		} else {
			base = Select(Select(h, p.Ref), p.Idx)
		}
	}
	t := u.applyPath(base, p.Path)
	if p.Kind == PCell || p.Kind == PElem || p.Kind == PGlobal {
		// type invariant of values read from memory
		if needsWF(ty) {
			t = u.named(s, "ld", t)
			s.assume(u.wf(s, ty, t))
		}
	}
	return Value{T: t, Ty: ty}
}

func needsWF(t types.Type) bool {
	switch ut := t.Underlying().(type) {
	case *types.Basic:
		return ut.Info()&(types.IsInteger|types.IsString|types.IsFloat) != 0
	case *types.Slice, *types.Pointer, *types.Map, *types.Interface, *types.Signature:
		return true
	case *types.Array:
		return needsWF(ut.Elem())
	case *types.Struct:
		for i := 0; i < ut.NumFields(); i++ {
			if needsWF(ut.Field(i).Type()) {
				return true
			}
		}
	}
	return false
}

func (u *Unit) store(s *State, f *Frame, p *Ptr, v *Term, in ssa.Instruction) {
	switch p.Kind {
	case PLocal:
		old := f.Cells[p.Cell]
		if old == nil && len(p.Path) > 0 {
			u.unsup("partial store to uninitialised cell")
		}
		f.Cells[p.Cell] = u.updatePath(old, p.Path, v)
	case PGlobal:
		old := u.globalVal(s, p.Global)
		s.Globals[p.Global] = u.updatePath(old, p.Path, v)
		u.frameCheckGlobal(s, p.Global, in)
	case PCell:
		u.check(s, "nil", in, "nil pointer dereference", Not(Eq(p.Ref, IntLit(0))))
		key, h := u.heap(s, "P", p.Elem)
		u.frameCheck(s, key, p.Ref, nil, in)
		nv := u.updatePath(Select(h, p.Ref), p.Path, v)
		u.setHeap(s, key, Store(h, p.Ref, nv))
	case PElem:
		if p.Idx == nil {
			// whole array through pointer-to-array: element-wise
			n := int(p.ArrLen)
			if n < 0 || n > 16 || len(p.Path) > 0 {
				u.unsup("store of whole array through pointer")
			}
			u.check(s, "nil", in, "nil pointer dereference", Not(Eq(p.Ref, IntLit(0))))
			key, h := u.heap(s, "S", p.Elem)
			row := Select(h, p.Ref)
			dt := u.W.dts[v.Sort]
			if dt == nil || len(dt.Fields) != n {
				u.unsup("store of whole array through pointer (sort %s)", v.Sort)
			}
			for i := 0; i < n; i++ {
				u.frameCheck(s, key, p.Ref, IntLit(int64(i)), in)
				row = Store(row, IntLit(int64(i)), Sel(dt, i, v))
			}
			if n > 0 {
				u.setHeap(s, key, Store(h, p.Ref, row))
			}
			return
		}
		u.check(s, "nil", in, "nil pointer dereference", Not(Eq(p.Ref, IntLit(0))))
		key, h := u.heap(s, "S", p.Elem)
		u.frameCheck(s, key, p.Ref, p.Idx, in)
		row := Select(h, p.Ref)
		nv := u.updatePath(Select(row, p.Idx), p.Path, v)
		u.setHeap(s, key, Store(h, p.Ref, Store(row, p.Idx, nv)))
	}
}

func (u *Unit) exec(s *State, f *Frame, in ssa.Instruction) []*State {
	w := u.W
	switch x := in.(type) {
	case *ssa.DebugRef:
		return nil
	case *ssa.Alloc:
		pt := x.Type().(*types.Pointer).Elem()
		if !x.Heap {
			f.Cells[x] = w.Zero(pt)
			f.Vals[x] = Value{P: &Ptr{Kind: PLocal, Cell: x, ArrLen: -1}, Ty: x.Type()}
			return nil
		}
		ref := u.allocRef(s)
		if a, ok := pt.Underlying().(*types.Array); ok {
			key, h := u.heap(s, "S", a.Elem())
			// zeroed backing array
			zrow := w.ZeroRow(a.Elem())
			u.setHeap(s, key, Store(h, ref, zrow))
			f.Vals[x] = Value{P: &Ptr{Kind: PElem, Ref: ref, Elem: a.Elem(), ArrLen: a.Len()}, Ty: x.Type()}
			return nil
		}
		key, h := u.heap(s, "P", pt)
		u.setHeap(s, key, Store(h, ref, w.Zero(pt)))
		f.Vals[x] = Value{T: ref, Ty: x.Type()}
		return nil
	case *ssa.Store:
		av := u.val(s, f, x.Addr)
		p := u.asPtr(s, av)
		v := u.val(s, f, x.Val)
		u.store(s, f, p, u.term(s, v), in)
		return nil
	case *ssa.UnOp:
		return u.execUnOp(s, f, x)
	case *ssa.BinOp:
		a := u.val(s, f, x.X)
		b := u.val(s, f, x.Y)
		f.Vals[x] = u.binop(s, x, x.Op, a, b, x.Type())
		return nil
	case *ssa.FieldAddr:
		base := u.val(s, f, x.X)
		p := u.asPtr(s, base)
		st := x.X.Type().Underlying().(*types.Pointer).Elem()
		dt := w.StructDT(st)
		np := *p
		np.Path = append(append([]PathStep(nil), p.Path...), PathStep{Field: x.Field, DT: dt})
		if p.Kind == PCell {
			u.check(s, "nil", in, "nil pointer dereference (field address)", Not(Eq(p.Ref, IntLit(0))))
		}
		f.Vals[x] = Value{P: &np, Ty: x.Type()}
		return nil
	case *ssa.Field:
		base := u.val(s, f, x.X)
		dt := w.StructDT(x.X.Type())
		f.Vals[x] = Value{T: Sel(dt, x.Field, u.term(s, base)), Ty: x.Type()}
		return nil
	case *ssa.IndexAddr:
		idx := u.toInt(u.term(s, u.val(s, f, x.Index)), x.Index.Type())
		base := u.val(s, f, x.X)
		switch bt := x.X.Type().Underlying().(type) {
		case *types.Slice:
			sl := u.term(s, base)
			u.check(s, "idx", in, "index out of range", And(Le(IntLit(0), idx), Lt(idx, w.SLen(sl))))
			f.Vals[x] = Value{P: &Ptr{Kind: PElem, Ref: w.SRef(sl), Idx: w.At(w.SOff(sl), idx), Elem: bt.Elem(), ArrLen: -1}, Ty: x.Type()}
		case *types.Pointer:
			arr := bt.Elem().Underlying().(*types.Array)
			p := u.asPtr(s, base)
			u.check(s, "idx", in, "index out of range", And(Le(IntLit(0), idx), Lt(idx, IntLit(arr.Len()))))
			if p.Kind == PElem && p.Idx == nil && len(p.Path) == 0 {
				f.Vals[x] = Value{P: &Ptr{Kind: PElem, Ref: p.Ref, Idx: idx, Elem: arr.Elem(), ArrLen: -1}, Ty: x.Type()}
			} else {
				dt := w.ArrayDT(arr)
				np := *p
				step := PathStep{Field: -1, Index: idx, DT: dt}
				if iv, ok := idx.intVal(); ok {
					step = PathStep{Field: int(iv.Int64()), DT: dt}
				}
				np.Path = append(append([]PathStep(nil), p.Path...), step)
				f.Vals[x] = Value{P: &np, Ty: x.Type()}
			}
		default:
			u.unsup("IndexAddr on %s", x.X.Type())
		}
		return nil
	case *ssa.Index:
		idx := u.toInt(u.term(s, u.val(s, f, x.Index)), x.Index.Type())
		base := u.term(s, u.val(s, f, x.X))
		switch bt := x.X.Type().Underlying().(type) {
		case *types.Array:
			u.check(s, "idx", in, "index out of range", And(Le(IntLit(0), idx), Lt(idx, IntLit(bt.Len()))))
			dt := w.ArrayDT(bt)
			step := PathStep{Field: -1, Index: idx, DT: dt}
			if iv, ok := idx.intVal(); ok && iv.IsInt64() && iv.Int64() >= 0 && iv.Int64() < int64(len(dt.Fields)) {
				step = PathStep{Field: int(iv.Int64()), DT: dt}
			}
			f.Vals[x] = Value{T: u.applyPath(base, []PathStep{step}), Ty: x.Type()}
		case *types.Basic: // string
			u.check(s, "idx", in, "string index out of range", And(Le(IntLit(0), idx), Lt(idx, w.StrLen(base))))
			c := u.named(s, "ch", Select(w.StrChars(base), idx))
			s.assume(And(Le(IntLit(0), c), Le(c, IntLit(255))))
			f.Vals[x] = Value{T: c, Ty: x.Type()}
		default:
			u.unsup("Index on %s", x.X.Type())
		}
		return nil
	case *ssa.Slice:
		u.execSlice(s, f, x)
		return nil
	case *ssa.MakeSlice:
		ln := u.toInt(u.term(s, u.val(s, f, x.Len)), x.Len.Type())
		cp := u.toInt(u.term(s, u.val(s, f, x.Cap)), x.Cap.Type())
		if u.C != nil && u.C.Opts != nil && u.C.Opts["makecap"] == "assume" {
			// the upper bound of the requested capacity is assumed, not proved (listed)
			u.Assumed["make() capacity upper bound in "+shortKey(fnKey(u.Fn))+" is assumed to be within the allocator limit (`opt makecap=assume`)"] = true
			u.check(s, "make", in, "makeslice: negative len or len > cap", And(Le(IntLit(0), ln), Le(ln, cp)))
			s.assume(Le(cp, maxElems(x.Type().Underlying().(*types.Slice).Elem())))
		} else {
			u.check(s, "make", in, "makeslice: len/cap out of range", And(Le(IntLit(0), ln), Le(ln, cp), Le(cp, maxElems(x.Type().Underlying().(*types.Slice).Elem()))))
		}
		u.allocCheck(s, in, cp)
		elem := x.Type().Underlying().(*types.Slice).Elem()
		ref := u.allocRef(s)
		key, h := u.heap(s, "S", elem)
		zrow := w.ZeroRow(elem)
		u.setHeap(s, key, Store(h, ref, zrow))
		f.Vals[x] = Value{T: w.MkSlice(ref, IntLit(0), ln, cp), Ty: x.Type()}
		return nil
	case *ssa.ChangeType:
		v := u.val(s, f, x.X)
		v.Ty = x.Type()
		f.Vals[x] = v
		return nil
	case *ssa.Convert:
		f.Vals[x] = u.convert(s, in, u.val(s, f, x.X), x.X.Type(), x.Type())
		return nil
	case *ssa.ChangeInterface:
		v := u.val(s, f, x.X)
		v.Ty = x.Type()
		f.Vals[x] = v
		return nil
	case *ssa.MakeInterface:
		v := u.val(s, f, x.X)
		f.Vals[x] = Value{T: u.makeIface(s, v, x.X.Type()), Ty: x.Type()}
		return nil
	case *ssa.TypeAssert:
		return u.execTypeAssert(s, f, x)
	case *ssa.Extract:
		tv := u.val(s, f, x.Tuple)
		if x.Index >= len(tv.Tup) {
			u.unsup("extract index")
		}
		f.Vals[x] = tv.Tup[x.Index]
		return nil
	case *ssa.Phi:
		for i, p := range f.Block.Preds {
			if p == f.Prev {
				f.Vals[x] = u.val(s, f, x.Edges[i])
				return nil
			}
		}
		u.unsup("phi without matching predecessor")
	case *ssa.Jump:
		u.jump(s, f, f.Block.Succs[0])
		return nil
	case *ssa.If:
		c := u.term(s, u.val(s, f, x.Cond))
		tb, fb := f.Block.Succs[0], f.Block.Succs[1]
		if c.IsTrue() {
			u.jump(s, f, tb)
			return nil
		}
		if c.IsFalse() {
			u.jump(s, f, fb)
			return nil
		}
		if u.tryIfConvert(s, f, c, tb, fb) {
			return nil
		}
		other := s.clone()
		s.assume(c)
		u.jump(s, f, tb)
		other.assume(Not(c))
		u.jump(other, other.top(), fb)
		if other.Dead {
			return nil
		}
		return []*State{other}
	case *ssa.Return:
		var rv []Value
		for _, r := range x.Results {
			rv = append(rv, u.val(s, f, r))
		}
		u.doReturn(s, f, rv, in)
		return nil
	case *ssa.RunDefers:
		return nil
	case *ssa.Panic:
		fk := fnKey(f.Fn)
		name := u.siteName(fk, "panic", in, "")
		u.oblige(s, name, "panic", in.Pos(), "explicit panic reachable", False)
		s.Dead = true
		return nil
	case *ssa.Call:
		return u.execCall(s, f, x)
	case *ssa.MakeClosure:
		fn := x.Fn.(*ssa.Function)
		// closure value: id; bindings recorded for inlining at call sites
		id := u.fresh(s, "clo_"+fn.Name(), "Int")
		s.assume(Gt(id, IntLit(0)))
		var binds []Value
		for _, b := range x.Bindings {
			binds = append(binds, u.val(s, f, b))
		}
		u.closures[id.Op] = &closureVal{Fn: fn, Binds: binds}
		f.Vals[x] = Value{T: id, Ty: x.Type()}
		return nil
	case *ssa.MakeMap:
		u.execMakeMap(s, f, x)
		return nil
	case *ssa.MapUpdate:
		u.execMapUpdate(s, f, x)
		return nil
	case *ssa.Lookup:
		u.execLookup(s, f, x)
		return nil
	case *ssa.Range:
		u.execRange(s, f, x)
		return nil
	case *ssa.Next:
		return u.execNext(s, f, x)
	case *ssa.Defer, *ssa.Go, *ssa.Select, *ssa.Send, *ssa.MakeChan:
		u.unsup("%T is outside the verified subset", in)
	}
	u.unsup("instruction %T", in)
	return nil
}

type closureVal struct {
	Fn    *ssa.Function
	Binds []Value
}

func (u *Unit) allocRef(s *State) *Term {
	ref := s.Alloc
	s.Alloc = u.named(s, "alloc", Add(s.Alloc, IntLit(1)))
	return ref
}

func (u *Unit) execUnOp(s *State, f *Frame, x *ssa.UnOp) []*State {
	w := u.W
	switch x.Op {
	case token.MUL: // load
		av := u.val(s, f, x.X)
		p := u.asPtr(s, av)
		f.Vals[x] = u.load(s, f, p, x.Type(), x)
		return nil
	case token.NOT:
		f.Vals[x] = Value{T: Not(u.term(s, u.val(s, f, x.X))), Ty: x.Type()}
		return nil
	case token.SUB:
		v := u.term(s, u.val(s, f, x.X))
		if isFloat(x.Type()) {
			f.Vals[x] = Value{T: w.FNeg(v), Ty: x.Type()}
		} else if w.IntBV {
			f.Vals[x] = Value{T: App("bvneg", v.Sort, v), Ty: x.Type()}
		} else {
			f.Vals[x] = Value{T: u.wrapInt(s, x, Neg(v), x.Type()), Ty: x.Type()}
		}
		return nil
	case token.XOR:
		v := u.term(s, u.val(s, f, x.X))
		if w.IntBV {
			f.Vals[x] = Value{T: App("bvnot", v.Sort, v), Ty: x.Type()}
			return nil
		}
		b := x.Type().Underlying().(*types.Basic)
		_, signed := intBits(b)
		if signed {
			f.Vals[x] = Value{T: Sub(Neg(v), IntLit(1)), Ty: x.Type()}
		} else {
			_, hi, _ := intRange(b)
			f.Vals[x] = Value{T: Sub(hi, v), Ty: x.Type()}
		}
		return nil
	}
	u.unsup("unop %s", x.Op)
	return nil
}

func isFloat(t types.Type) bool {
	b, ok := t.Underlying().(*types.Basic)
	return ok && b.Info()&types.IsFloat != 0
}
func isInteger(t types.Type) bool {
	b, ok := t.Underlying().(*types.Basic)
	return ok && b.Info()&types.IsInteger != 0
}
func isString(t types.Type) bool {
	b, ok := t.Underlying().(*types.Basic)
	return ok && b.Info()&types.IsString != 0
}
func isBool(t types.Type) bool {
	b, ok := t.Underlying().(*types.Basic)
	return ok && b.Info()&types.IsBoolean != 0
}

// wrapInt applies Go's wrap-around for the result type. For int/int64 the
// unwrapped value is kept and an `ovf` obligation proves it is in range.
func (u *Unit) wrapInt(s *State, in ssa.Instruction, t *Term, ty types.Type) *Term {
	b := ty.Underlying().(*types.Basic)
	bits, signed := intBits(b)
	lo, hi, _ := intRange(b)
	if _, ok := t.intVal(); ok {
		return wrapConst(t, bits, signed)
	}
	if signed && bits == 64 {
		if u.C != nil && u.C.OvfAssume || u.V.OvfAssume {
			u.Assumed["machine arithmetic treated as mathematical in "+shortKey(fnKey(u.Fn))+" (`ovf assume`: signed 64-bit overflow not checked there)"] = true
			return t
		}
		goal := And(Le(lo, t), Le(t, hi))
		u.check(s, "ovf", in, "signed 64-bit overflow", goal)
		return t
	}
	mod := BigLit(new(bigInt).Lsh(bigOne, bits))
	if !signed {
		return EMod(t, mod)
	}
	half := BigLit(new(bigInt).Lsh(bigOne, bits-1))
	return Sub(EMod(Add(t, half), mod), half)
}

func wrapConst(t *Term, bits uint, signed bool) *Term {
	v, _ := t.intVal()
	mod := new(bigInt).Lsh(bigOne, bits)
	r := new(bigInt).Mod(v, mod)
	if signed {
		half := new(bigInt).Lsh(bigOne, bits-1)
		if r.Cmp(half) >= 0 {
			r.Sub(r, mod)
		}
	}
	return BigLit(r)
}

func (u *Unit) binop(s *State, in ssa.Instruction, op token.Token, a, b Value, rty types.Type) Value {
	w := u.W
	ty := a.Ty
	switch op {
	case token.EQL, token.NEQ:
		eq := u.goEqual(s, a, b)
		if op == token.NEQ {
			eq = Not(eq)
		}
		return Value{T: eq, Ty: rty}
	}
	at, bt := u.term(s, a), u.term(s, b)
	switch {
	case isFloat(ty):
		switch op {
		case token.ADD:
			return Value{T: w.fbin("+", at, bt), Ty: rty}
		case token.SUB:
			return Value{T: w.fbin("-", at, bt), Ty: rty}
		case token.MUL:
			return Value{T: w.fbin("*", at, bt), Ty: rty}
		case token.QUO:
			return Value{T: w.fbin("/", at, bt), Ty: rty}
		case token.LSS:
			return Value{T: w.FCmp("<", at, bt), Ty: rty}
		case token.LEQ:
			return Value{T: w.FCmp("<=", at, bt), Ty: rty}
		case token.GTR:
			return Value{T: w.FCmp(">", at, bt), Ty: rty}
		case token.GEQ:
			return Value{T: w.FCmp(">=", at, bt), Ty: rty}
		}
	case isInteger(ty) && w.IntBV:
		return Value{T: u.bvBinop(s, in, op, at, bt, a.Ty, b.Ty, rty), Ty: rty}
	case isInteger(ty):
		switch op {
		case token.ADD:
			return Value{T: u.wrapInt(s, in, Add(at, bt), rty), Ty: rty}
		case token.SUB:
			return Value{T: u.wrapInt(s, in, Sub(at, bt), rty), Ty: rty}
		case token.MUL:
			return Value{T: u.wrapInt(s, in, Mul(at, bt), rty), Ty: rty}
		case token.QUO:
			u.check(s, "div", in, "integer divide by zero", Not(Eq(bt, IntLit(0))))
			return Value{T: u.wrapInt(s, in, TDiv(at, bt), rty), Ty: rty}
		case token.REM:
			u.check(s, "div", in, "integer divide by zero", Not(Eq(bt, IntLit(0))))
			return Value{T: TRem(at, bt), Ty: rty}
		case token.LSS:
			return Value{T: Lt(at, bt), Ty: rty}
		case token.LEQ:
			return Value{T: Le(at, bt), Ty: rty}
		case token.GTR:
			return Value{T: Gt(at, bt), Ty: rty}
		case token.GEQ:
			return Value{T: Ge(at, bt), Ty: rty}
		case token.SHL, token.SHR:
			return Value{T: u.shift(s, in, op, at, bt, a.Ty, b.Ty), Ty: rty}
		case token.AND, token.OR, token.XOR, token.AND_NOT:
			r := u.bitop(s, op, at, bt, rty)
			if _, lit := r.intVal(); !lit && r.Sort == "Int" && strings.Contains(r.String(), "int2bv") {
				// sound two's-complement facts that spare the solver the int<->bit-vector bridge:
				// a|b == 0 iff both are 0; a&b != 0 needs both non-zero; for non-negative operands the
				// result is non-negative, a&b is at most either operand and a|b at least either operand
				zero := IntLit(0)
				switch op {
				case token.OR:
					r = u.named(s, "bor", r)
					s.assume(Eq(Eq(r, zero), And(Eq(at, zero), Eq(bt, zero))))
					s.assume(Implies(And(Ge(at, zero), Ge(bt, zero)), And(Ge(r, at), Ge(r, bt))))
				case token.AND:
					r = u.named(s, "band", r)
					s.assume(Implies(Not(Eq(r, zero)), And(Not(Eq(at, zero)), Not(Eq(bt, zero)))))
					s.assume(Implies(And(Ge(at, zero), Ge(bt, zero)), And(Ge(r, zero), Le(r, at), Le(r, bt))))
				}
			}
			return Value{T: r, Ty: rty}
		}
	case isString(ty):
		switch op {
		case token.ADD:
			// concatenation: exact length, abstract content
			chars := u.fresh(s, "cat", "(Array Int Int)")
			return Value{T: Mk(w.StrDT(), chars, Add(w.StrLen(at), w.StrLen(bt))), Ty: rty}
		case token.LSS, token.LEQ, token.GTR, token.GEQ:
			return Value{T: u.fresh(s, "strcmp", "Bool"), Ty: rty}
		}
	case isBool(ty):
		switch op {
		case token.AND:
			return Value{T: And(at, bt), Ty: rty}
		case token.OR:
			return Value{T: Or(at, bt), Ty: rty}
		}
	}
	u.unsup("binop %s on %s", op, ty)
	return Value{}
}

func pow2(n uint) *Term { return BigLit(new(bigInt).Lsh(bigOne, n)) }

func (u *Unit) shift(s *State, in ssa.Instruction, op token.Token, a, b *Term, aty, bty types.Type) *Term {
	bits, signed := intBits(aty.Underlying().(*types.Basic))
	if _, bsigned := intBits(bty.Underlying().(*types.Basic)); bsigned {
		if _, isConst := b.intVal(); !isConst {
			u.check(s, "shift", in, "negative shift amount", Ge(b, IntLit(0)))
		}
	}
	if bv, ok := b.intVal(); ok && bv.IsInt64() {
		n := bv.Int64()
		if n >= int64(bits) {
			if op == token.SHL || !signed {
				return IntLit(0)
			}
			return Ite(Lt(a, IntLit(0)), IntLit(-1), IntLit(0))
		}
		if op == token.SHL {
			r := Mul(a, pow2(uint(n)))
			if signed && bits == 64 {
				// wrap explicitly (shifts are bit manipulation, not arithmetic to be checked)
				half := pow2(63)
				return Sub(EMod(Add(r, half), pow2(64)), half)
			}
			return u.wrapInt(s, in, r, aty)
		}
		// SHR: floor division (arithmetic shift for signed)
		return EDiv(a, pow2(uint(n)))
	}
	// symbolic shift amount: 2^b as an uninterpreted function with its defining facts for b in [0,64]
	p := u.W.UF("pow2", []string{"Int"}, "Int", b)
	if !u.W.declared["pow2ax"] {
		u.W.declared["pow2ax"] = true
		var sb strings.Builder
		sb.WriteString("(assert (and")
		for i := 0; i <= 64; i++ {
			fmt.Fprintf(&sb, " (= (pow2 %d) %s)", i, new(bigInt).Lsh(bigOne, uint(i)).String())
		}
		sb.WriteString("))")
		u.W.decls = append(u.W.decls, sb.String())
	}
	big := Ge(b, IntLit(int64(bits)))
	if op == token.SHL {
		r := Mul(a, p)
		mod := pow2(bits)
		var wr *Term
		if signed {
			half := pow2(bits - 1)
			wr = Sub(EMod(Add(r, half), mod), half)
		} else {
			wr = EMod(r, mod)
		}
		return Ite(big, IntLit(0), wr)
	}
	sh := App("div", "Int", a, p)
	if signed {
		return Ite(big, Ite(Lt(a, IntLit(0)), IntLit(-1), IntLit(0)), sh)
	}
	return Ite(big, IntLit(0), sh)
}

func (u *Unit) bitop(s *State, op token.Token, a, b *Term, ty types.Type) *Term {
	bits, signed := intBits(ty.Underlying().(*types.Basic))
	// constant folding (small non-negative literals, the common flag arithmetic)
	if av, ok := a.intVal(); ok {
		if bv, ok := b.intVal(); ok && av.Sign() >= 0 && bv.Sign() >= 0 {
			r := new(bigInt)
			switch op {
			case token.AND:
				return BigLit(r.And(av, bv))
			case token.OR:
				return BigLit(r.Or(av, bv))
			case token.XOR:
				return BigLit(r.Xor(av, bv))
			case token.AND_NOT:
				return BigLit(r.AndNot(av, bv))
			}
		}
	}
	// x & 2^k (single bit test): bit k of x, scaled back (floor div/mod = two's complement bits)
	if op == token.AND {
		for _, pr := range [][2]*Term{{a, b}, {b, a}} {
			if mv, ok := pr[1].intVal(); ok && mv.Sign() > 0 && new(bigInt).And(mv, new(bigInt).Sub(mv, bigOne)).Sign() == 0 {
				k := uint(mv.BitLen() - 1)
				return Mul(EMod(EDiv(pr[0], pow2(k)), IntLit(2)), pow2(k))
			}
		}
	}
	// constant masks of the form 2^k-1 and single bits become mod/div arithmetic
	if op == token.AND {
		if bv, ok := b.intVal(); ok {
			if k, ok := lowMask(bv); ok && !signed {
				return EMod(a, pow2(k))
			}
			if k, ok := lowMask(bv); ok && signed {
				return EMod(a, pow2(k))
			}
		}
		if av, ok := a.intVal(); ok {
			if k, ok := lowMask(av); ok {
				return EMod(b, pow2(k))
			}
		}
	}
	// general case through bit-vectors of the exact width
	name := map[token.Token]string{token.AND: "bvand", token.OR: "bvor", token.XOR: "bvxor", token.AND_NOT: "bvandnot"}[op]
	toBV := func(t *Term) *Term {
		x := t
		if signed {
			x = EMod(t, pow2(bits))
		}
		return App(fmt.Sprintf("(_ int2bv %d)", bits), fmt.Sprintf("(_ BitVec %d)", bits), x)
	}
	var r *Term
	bs := fmt.Sprintf("(_ BitVec %d)", bits)
	if op == token.AND_NOT {
		r = App("bvand", bs, toBV(a), App("bvnot", bs, toBV(b)))
	} else {
		r = App(name, bs, toBV(a), toBV(b))
	}
	n := App("bv2nat", "Int", r)
	if signed {
		return Ite(Ge(n, pow2(bits-1)), Sub(n, pow2(bits)), n)
	}
	return n
}

func lowMask(v *bigInt) (uint, bool) {
	if v.Sign() <= 0 {
		return 0, false
	}
	x := new(bigInt).Add(v, bigOne)
	if x.BitLen() > 0 && new(bigInt).And(x, v).Sign() == 0 {
		return uint(x.BitLen() - 1), true
	}
	return 0, false
}

// goEqual implements Go's == for the static type of a.
func (u *Unit) goEqual(s *State, a, b Value) *Term {
	// pointer pseudo-values
	if a.P != nil || b.P != nil {
		if a.P != nil && b.P != nil {
			if a.P.Kind == PLocal && b.P.Kind == PLocal {
				if a.P.Cell == b.P.Cell {
					return True
				}
				return False
			}
		}
		at, bt := u.term(s, a), u.term(s, b)
		return Eq(at, bt)
	}
	return u.eqTerms(s, a.Ty, a.T, b.T, b.Ty)
}

func (u *Unit) eqTerms(s *State, ty types.Type, a, b *Term, bty types.Type) *Term {
	w := u.W
	switch ut := ty.Underlying().(type) {
	case *types.Basic:
		if ut.Info()&types.IsFloat != 0 {
			return w.FCmp("==", a, b)
		}
		if ut.Kind() == types.UntypedNil && bty != nil {
			return u.eqTerms(s, bty, b, a, nil)
		}
		return Eq(a, b)
	case *types.Slice:
		// only comparable with nil
		if isNilTerm(w, b) {
			return Eq(w.SRef(a), IntLit(0))
		}
		if isNilTerm(w, a) {
			return Eq(w.SRef(b), IntLit(0))
		}
		u.unsup("slice comparison")
	case *types.Interface:
		d := w.IfaceDT()
		if isNilTerm(w, b) {
			return Eq(Sel(d, 0, a), IntLit(0))
		}
		if isNilTerm(w, a) {
			return Eq(Sel(d, 0, b), IntLit(0))
		}
		// both dynamic: equal tags and payloads (sound for pointer-like dynamic types; a
		// comparison of uncomparable dynamic types panics in Go — obligation)
		return Eq(a, b)
	case *types.Array:
		d := w.ArrayDT(ut)
		var cs []*Term
		for i := range d.Fields {
			cs = append(cs, u.eqTerms(s, ut.Elem(), Sel(d, i, a), Sel(d, i, b), ut.Elem()))
		}
		return And(cs...)
	case *types.Struct:
		d := w.StructDT(ty)
		var cs []*Term
		for i := range d.Fields {
			cs = append(cs, u.eqTerms(s, ut.Field(i).Type(), Sel(d, i, a), Sel(d, i, b), ut.Field(i).Type()))
		}
		return And(cs...)
	}
	return Eq(a, b)
}

func isNilTerm(w *World, t *Term) bool {
	s := t.String()
	return s == w.NilSlice().String() || s == w.NilIface().String() || s == "0"
}

func (u *Unit) execSlice(s *State, f *Frame, x *ssa.Slice) {
	w := u.W
	base := u.val(s, f, x.X)
	var lo, hi, mx *Term
	if x.Low != nil {
		lo = u.toInt(u.term(s, u.val(s, f, x.Low)), x.Low.Type())
	} else {
		lo = IntLit(0)
	}
	if x.High != nil {
		hi = u.toInt(u.term(s, u.val(s, f, x.High)), x.High.Type())
	}
	if x.Max != nil {
		mx = u.toInt(u.term(s, u.val(s, f, x.Max)), x.Max.Type())
	}
	switch bt := x.X.Type().Underlying().(type) {
	case *types.Slice:
		sl := u.term(s, base)
		if hi == nil {
			hi = w.SLen(sl)
		}
		cp := w.SCap(sl)
		if mx != nil {
			u.check(s, "slice", x, "slice bounds out of range", And(Le(IntLit(0), lo), Le(lo, hi), Le(hi, mx), Le(mx, cp)))
			cp = mx
		} else {
			u.check(s, "slice", x, "slice bounds out of range", And(Le(IntLit(0), lo), Le(lo, hi), Le(hi, cp)))
		}
		// s[lo:hi] of a nil slice stays nil (ref 0) and lo==hi==0 then
		f.Vals[x] = Value{T: w.MkSlice(w.SRef(sl), Add(w.SOff(sl), lo), Sub(hi, lo), Sub(cp, lo)), Ty: x.Type()}
		_ = bt
	case *types.Basic: // string
		st := u.term(s, base)
		if hi == nil {
			hi = w.StrLen(st)
		}
		u.check(s, "slice", x, "string slice bounds out of range", And(Le(IntLit(0), lo), Le(lo, hi), Le(hi, w.StrLen(st))))
		var chars *Term
		if lv, ok := lo.intVal(); ok && lv.Sign() == 0 {
			chars = w.StrChars(st)
		} else {
			chars = u.fresh(s, "substr", "(Array Int Int)")
			k := Leaf("k!s", "Int")
			s.assume(Forall([]*Term{k}, Eq(Select(chars, k), Select(w.StrChars(st), Add(k, lo))), Select(chars, k)))
		}
		f.Vals[x] = Value{T: Mk(w.StrDT(), chars, Sub(hi, lo)), Ty: x.Type()}
	case *types.Pointer: // pointer to array
		arr := bt.Elem().Underlying().(*types.Array)
		p := u.asPtr(s, base)
		if p.Kind != PElem || p.Idx != nil || len(p.Path) != 0 {
			u.unsup("slicing a non-heap array")
		}
		n := IntLit(arr.Len())
		if hi == nil {
			hi = n
		}
		cp := n
		if mx != nil {
			cp = mx
		}
		u.check(s, "slice", x, "slice bounds out of range", And(Le(IntLit(0), lo), Le(lo, hi), Le(hi, cp), Le(cp, n)))
		u.check(s, "nil", x, "nil pointer dereference (slice of array)", Not(Eq(p.Ref, IntLit(0))))
		f.Vals[x] = Value{T: w.MkSlice(p.Ref, lo, Sub(hi, lo), Sub(cp, lo)), Ty: x.Type()}
	default:
		u.unsup("slice of %s", x.X.Type())
	}
}

func (u *Unit) convert(s *State, in ssa.Instruction, v Value, from, to types.Type) Value {
	w := u.W
	fb, fok := from.Underlying().(*types.Basic)
	tb, tok := to.Underlying().(*types.Basic)
	switch {
	case fok && tok && fb.Info()&types.IsInteger != 0 && tb.Info()&types.IsInteger != 0 && w.IntBV:
		return Value{T: u.bvConvert(u.term(s, v), fb, tb), Ty: to}
	case fok && tok && fb.Info()&types.IsInteger != 0 && tb.Info()&types.IsInteger != 0:
		t := u.term(s, v)
		flo, fhi, _ := intRange(fb)
		tlo, thi, _ := intRange(tb)
		fl, _ := flo.intVal()
		fh, _ := fhi.intVal()
		tl, _ := tlo.intVal()
		th, _ := thi.intVal()
		if fl.Cmp(tl) >= 0 && fh.Cmp(th) <= 0 {
			return Value{T: t, Ty: to} // widening
		}
		bits, signed := intBits(tb)
		if _, ok := t.intVal(); ok {
			return Value{T: wrapConst(t, bits, signed), Ty: to}
		}
		mod := pow2(bits)
		if !signed {
			return Value{T: EMod(t, mod), Ty: to}
		}
		half := pow2(bits - 1)
		return Value{T: Sub(EMod(Add(t, half), mod), half), Ty: to}
	case fok && tok && fb.Info()&types.IsInteger != 0 && tb.Info()&types.IsFloat != 0:
		t := u.term(s, v)
		return Value{T: u.intToFloat(s, t, fb, tb), Ty: to}
	case fok && tok && fb.Info()&types.IsFloat != 0 && tb.Info()&types.IsInteger != 0:
		t := u.term(s, v)
		return Value{T: u.floatToInt(s, in, t, tb), Ty: to}
	case fok && tok && fb.Info()&types.IsFloat != 0 && tb.Info()&types.IsFloat != 0:
		if fb.Kind() == tb.Kind() || tb.Kind() == types.Float64 || fb.Kind() == types.UntypedFloat {
			v.Ty = to
			return v
		}
		// float64 -> float32 rounding
		t := u.term(s, v)
		if w.FM == FloatIEEE {
			r := App("(_ to_fp 11 53) RNE", "Float", App("(_ to_fp 8 24) RNE", "(_ FloatingPoint 8 24)", t))
			return Value{T: r, Ty: to}
		}
		return Value{T: w.UF("f32round", []string{"Float"}, "Float", t), Ty: to}
	case fok && isString(from) && isSliceOf(to, types.Byte):
		// []byte(s): fresh array with the same content
		st := u.term(s, v)
		ref := u.allocRef(s)
		key, h := u.heap(s, "S", to.Underlying().(*types.Slice).Elem())
		u.setHeap(s, key, Store(h, ref, w.StrChars(st)))
		ln := w.StrLen(st)
		sl := Ite(Eq(ln, IntLit(0)), w.MkSlice(ref, IntLit(0), IntLit(0), IntLit(0)), w.MkSlice(ref, IntLit(0), ln, ln))
		return Value{T: sl, Ty: to}
	case tok && isString(to) && isSliceOf(from, types.Byte):
		sl := u.term(s, v)
		_, h := u.heap(s, "S", from.Underlying().(*types.Slice).Elem())
		var chars *Term
		row := Select(h, w.SRef(sl))
		if ov, ok := w.SOff(sl).intVal(); ok && ov.Sign() == 0 {
			chars = row
		} else {
			chars = u.fresh(s, "bstr", "(Array Int Int)")
			k := Leaf("k!b", "Int")
			s.assume(Forall([]*Term{k}, Eq(Select(chars, k), Select(row, Add(k, w.SOff(sl)))), Select(chars, k)))
		}
		return Value{T: Mk(w.StrDT(), chars, w.SLen(sl)), Ty: to}
	case tok && isString(to) && isSliceOf(from, types.Int32):
		// string([]rune): 0..4 bytes per rune, abstract content
		sl := u.term(s, v)
		_, h := u.heap(s, "S", from.Underlying().(*types.Slice).Elem())
		row := Select(h, w.SRef(sl))
		// deterministic function of the rune sequence (same memory => same string)
		chars := w.UF("r2s_chars", []string{row.Sort, "Int", "Int"}, "(Array Int Int)", row, w.SOff(sl), w.SLen(sl))
		ln := u.named(s, "r2slen", w.UF("r2s_len", []string{row.Sort, "Int", "Int"}, "Int", row, w.SOff(sl), w.SLen(sl)))
		s.assume(And(Le(w.SLen(sl), ln), Le(ln, Mul(IntLit(4), w.SLen(sl)))))
		return Value{T: Mk(w.StrDT(), chars, ln), Ty: to}
	case tok && isString(to) && fok && fb.Info()&types.IsInteger != 0:
		// string(rune)
		chars := u.fresh(s, "runestr", "(Array Int Int)")
		ln := u.fresh(s, "runelen", "Int")
		s.assume(And(Le(IntLit(1), ln), Le(ln, IntLit(4))))
		return Value{T: Mk(w.StrDT(), chars, ln), Ty: to}
	}
	if types.Identical(from.Underlying(), to.Underlying()) {
		v.Ty = to
		return v
	}
	// pointer conversions between identical underlying pointee types
	if _, ok := from.Underlying().(*types.Pointer); ok {
		if _, ok := to.Underlying().(*types.Pointer); ok {
			v.Ty = to
			return v
		}
	}
	u.unsup("conversion %s -> %s", from, to)
	return Value{}
}

func isSliceOf(t types.Type, k types.BasicKind) bool {
	sl, ok := t.Underlying().(*types.Slice)
	if !ok {
		return false
	}
	b, ok := sl.Elem().Underlying().(*types.Basic)
	return ok && (b.Kind() == k || (k == types.Byte && b.Kind() == types.Uint8))
}

func (u *Unit) intToFloat(s *State, t *Term, fb, tb *types.Basic) *Term {
	w := u.W
	if isBVSort(t.Sort) && w.FM == FloatIEEE {
		_, signed := intBits(fb)
		if signed {
			return App("(_ to_fp 11 53) RNE", "Float", t)
		}
		return App("(_ to_fp_unsigned 11 53) RNE", "Float", t)
	}
	switch w.FM {
	case FloatIEEE:
		bits, signed := intBits(fb)
		if v, ok := t.intVal(); ok {
			f, _ := new(big_Float).SetInt(v).Float64()
			if tb.Kind() == types.Float32 {
				f = float64(float32(f))
			}
			return w.FConst(f)
		}
		// Int -> BV -> FP (exact semantics of the machine conversion)
		bs := fmt.Sprintf("(_ BitVec %d)", bits)
		x := t
		if signed {
			x = EMod(t, pow2(bits))
		}
		bv := App(fmt.Sprintf("(_ int2bv %d)", bits), bs, x)
		if signed {
			return App("(_ to_fp 11 53) RNE", "Float", bv)
		}
		return App("(_ to_fp_unsigned 11 53) RNE", "Float", bv)
	case FloatAbstract:
		w.needAbstractOps()
		return App("i2f", "Float", t)
	}
	w.unsupported("int->float conversion in floats bits mode")
	return w.freshConst("i2f", "Float")
}

func (u *Unit) floatToInt(s *State, in ssa.Instruction, t *Term, tb *types.Basic) *Term {
	w := u.W
	bits, signed := intBits(tb)
	if w.IntBV && w.FM == FloatIEEE {
		bs := bvSort(bits)
		r := u.fresh(s, "f2i", bs)
		var bv, inRange *Term
		if signed {
			bv = App(fmt.Sprintf("(_ fp.to_sbv %d) RTZ", bits), bs, t)
			inRange = And(App("fp.geq", "Bool", t, w.FConst(-math.Ldexp(1, int(bits-1)))), App("fp.lt", "Bool", t, w.FConst(math.Ldexp(1, int(bits-1)))))
		} else {
			bv = App(fmt.Sprintf("(_ fp.to_ubv %d) RTZ", bits), bs, t)
			inRange = And(App("fp.gt", "Bool", t, w.FConst(-1)), App("fp.lt", "Bool", t, w.FConst(math.Ldexp(1, int(bits)))))
		}
		s.assume(Implies(inRange, Eq(r, bv)))
		u.convNote(s, in, inRange)
		return r
	}
	lo, hi, _ := intRange(tb)
	r := u.fresh(s, "f2i", "Int")
	s.assume(And(Le(lo, r), Le(r, hi)))
	switch w.FM {
	case FloatIEEE:
		// in-range values truncate toward zero; out-of-range / NaN: implementation-defined (any value)
		bs := fmt.Sprintf("(_ BitVec %d)", bits)
		var bv *Term
		if signed {
			bv = App(fmt.Sprintf("(_ fp.to_sbv %d) RTZ", bits), bs, t)
		} else {
			bv = App(fmt.Sprintf("(_ fp.to_ubv %d) RTZ", bits), bs, t)
		}
		// range test in FP: lo-1 < t < hi+1  (both bounds exactly representable powers of two)
		var inRange *Term
		if signed {
			loF := w.FConst(-math.Ldexp(1, int(bits-1)))
			hiF := w.FConst(math.Ldexp(1, int(bits-1)))
			inRange = And(App("fp.geq", "Bool", t, loF), App("fp.lt", "Bool", t, hiF))
		} else {
			hiF := w.FConst(math.Ldexp(1, int(bits)))
			inRange = And(App("fp.gt", "Bool", t, w.FConst(-1)), App("fp.lt", "Bool", t, hiF))
		}
		n := App("bv2nat", "Int", bv)
		var val *Term
		if signed {
			val = Ite(Ge(n, pow2(bits-1)), Sub(n, pow2(bits)), n)
		} else {
			val = n
		}
		s.assume(Implies(inRange, Eq(r, val)))
		u.convNote(s, in, inRange)
	case FloatAbstract:
		w.needAbstractOps()
		// one conversion function per target type: the implementation-defined out-of-range results of
		// int64(t) and uint32(t) are unrelated, and each is assumed to lie in its own type's range
		fname := fmt.Sprintf("f2i_%d", bits)
		if !signed {
			fname = fmt.Sprintf("f2u_%d", bits)
		}
		w.Declare(fname, fmt.Sprintf("(declare-fun %s (Float) Int)", fname))
		s.assume(Eq(r, App(fname, "Int", t)))
	default:
		w.unsupported("float->int conversion in floats bits mode")
	}
	return r
}

func (u *Unit) convNote(s *State, in ssa.Instruction, inRange *Term) {
	if u.V.ConvObligations {
		u.check(s, "conv", in, "float->int conversion out of range (implementation-defined result)", inRange)
	}
}

// ---------- interfaces ----------

func isPointerLike(t types.Type) bool {
	switch t.Underlying().(type) {
	case *types.Pointer, *types.Map, *types.Chan, *types.Signature:
		return true
	}
	return false
}

func (u *Unit) boxFuncs(t types.Type) (box, unbox string, sort string) {
	sort = u.W.SortOf(t)
	k := TypeKey(t)
	box = "box_" + k
	unbox = "unbox_" + k
	u.W.Declare(box, fmt.Sprintf("(declare-fun %s (%s) Int)", box, sort))
	u.W.Declare(unbox, fmt.Sprintf("(declare-fun %s (Int) %s)", unbox, sort))
	return
}

func (u *Unit) makeIface(s *State, v Value, concrete types.Type) *Term {
	w := u.W
	if _, ok := concrete.Underlying().(*types.Interface); ok {
		return u.term(s, v)
	}
	tag := IntLit(int64(w.TypeID(concrete)))
	t := u.term(s, v)
	if isPointerLike(concrete) {
		return Mk(w.IfaceDT(), tag, t)
	}
	if isInteger(concrete) {
		return Mk(w.IfaceDT(), tag, t)
	}
	box, unbox, sort := u.boxFuncs(concrete)
	bv := App(box, "Int", t)
	s.assume(Eq(App(unbox, sort, bv), t))
	return Mk(w.IfaceDT(), tag, bv)
}

func (u *Unit) unbox(s *State, iv *Term, concrete types.Type) *Term {
	w := u.W
	payload := Sel(w.IfaceDT(), 1, iv)
	if isPointerLike(concrete) || isInteger(concrete) {
		return payload
	}
	// unbox(box(x)) folds
	_, unbox, sort := u.boxFuncs(concrete)
	if strings.HasPrefix(payload.Op, "box_") && len(payload.Args) == 1 && payload.Op == "box_"+TypeKey(concrete) {
		return payload.Args[0]
	}
	return App(unbox, sort, payload)
}

func (u *Unit) execTypeAssert(s *State, f *Frame, x *ssa.TypeAssert) []*State {
	w := u.W
	iv := u.term(s, u.val(s, f, x.X))
	tag := Sel(w.IfaceDT(), 0, iv)
	var ok *Term
	var val *Term
	if _, isIface := x.AssertedType.Underlying().(*types.Interface); isIface {
		// assertion to an interface type: succeeds iff the dynamic type implements it
		impl := u.V.typesImplementing(x.AssertedType)
		var alts []*Term
		for _, t := range impl {
			alts = append(alts, Eq(tag, IntLit(int64(w.TypeID(t)))))
		}
		if u.V.openWorld(x.AssertedType) {
			// unknown dynamic types may implement it too
			unk := u.fresh(s, "implements", "Bool")
			alts = append(alts, And(Not(Eq(tag, IntLit(0))), unk))
		}
		ok = Or(alts...)
		val = iv
	} else {
		ok = Eq(tag, IntLit(int64(w.TypeID(x.AssertedType))))
		val = u.unbox(s, iv, x.AssertedType)
	}
	if x.CommaOk {
		okc := u.named(s, "ok", ok)
		var v Value
		if needsWF(x.AssertedType) {
			val = u.named(s, "ta", val)
			s.assume(Implies(okc, u.wf(s, x.AssertedType, val)))
		}
		// zero value when !ok
		v = Value{T: Ite(okc, val, w.Zero(x.AssertedType)), Ty: x.AssertedType}
		f.Vals[x] = Value{Tup: []Value{v, {T: okc, Ty: types.Typ[types.Bool]}}, Ty: x.Type()}
		return nil
	}
	u.check(s, "assert", x, fmt.Sprintf("type assertion to %s fails", types.TypeString(x.AssertedType, nil)), ok)
	if needsWF(x.AssertedType) {
		val = u.named(s, "ta", val)
		s.assume(u.wf(s, x.AssertedType, val))
	}
	f.Vals[x] = Value{T: val, Ty: x.AssertedType}
	return nil
}

// ---------- globals ----------

func (u *Unit) globalVal(s *State, g *ssa.Global) *Term {
	if t, ok := s.Globals[g]; ok {
		return t
	}
	pt := g.Type().(*types.Pointer).Elem()
	name := "g_" + sanitize(g.Pkg.Pkg.Name()+"."+g.Name())
	sort := u.W.SortOf(pt)
	if c := u.V.constGlobal(u, g); c != nil {
		s.Globals[g] = c
		return c
	}
	u.W.Declare(name, fmt.Sprintf("(declare-const %s %s)", name, sort))
	t := Leaf(name, sort)
	if u.V.isConstGlobal(g) && isPointerLike(pt) && u.V.initNonNil(g) {
		// initialised once by a constructor that never returns nil (regexp.MustCompile, &T{...})
		if !u.W.declared[name+"$nn"] {
			u.W.declared[name+"$nn"] = true
			u.W.decls = append(u.W.decls, fmt.Sprintf("(assert (> %s 0))", name))
		}
	}
	// error sentinels and other interface-typed package vars: non-nil, pairwise distinct
	if _, ok := pt.Underlying().(*types.Interface); ok && strings.HasPrefix(g.Name(), "Err") {
		if !u.W.declared[name+"$ax"] {
			u.W.declared[name+"$ax"] = true
			u.W.decls = append(u.W.decls, fmt.Sprintf("(assert (> (i_tag %s) 0))", name))
			for _, other := range u.errGlobals {
				u.W.decls = append(u.W.decls, fmt.Sprintf("(assert (not (= %s %s)))", name, other))
			}
			u.errGlobals = append(u.errGlobals, name)
		}
	} else if needsWF(pt) {
		s.assume(u.wf(s, pt, t))
	}
	s.Globals[g] = t
	return t
}

func (u *Unit) frameCheckGlobal(s *State, g *ssa.Global, in ssa.Instruction) {
	if u.C == nil || !u.C.ModSet {
		return
	}
	fk := fnKey(s.top().Fn)
	name := u.siteName(fk, "frame", in, "")
	u.oblige(s, name, "frame", in.Pos(), "write to package variable "+g.Name()+" not in modifies", False)
}

// frameCheck: a heap write must target memory allocated by this call or named in modifies.
func (u *Unit) frameCheck(s *State, key string, ref, idx *Term, in ssa.Instruction) {
	if u.C == nil || !u.C.ModSet {
		return
	}
	goal := u.inFrame(s, key, ref, idx)
	fk := fnKey(s.top().Fn)
	name := u.siteName(fk, "frame", in, "")
	pos := token.NoPos
	if in != nil {
		pos = in.Pos()
	}
	u.oblige(s, name, "frame", pos, "write outside modifies clause ("+key+")", goal)
}

// inFrame: ref is fresh (>= alloc at entry) or covered by a modifies location.
func (u *Unit) inFrame(s *State, key string, ref, idx *Term) *Term {
	alts := []*Term{Ge(ref, s.Entry.Alloc)}
	if u.C != nil {
		env := u.specEnv(s, nil)
		env.useOld = true
		for _, m := range u.C.Modifies {
			loc := u.evalLoc(env, m)
			if loc == nil || loc.key != key {
				continue
			}
			c := Eq(ref, loc.ref)
			if idx != nil && loc.lo != nil {
				c = And(c, Le(loc.lo, idx), Lt(idx, loc.hi))
			}
			if loc.cond != nil {
				c = And(loc.cond, c)
			}
			alts = append(alts, c)
		}
	}
	return Or(alts...)
}

func init() {
	_ = sort.Strings
}

var amd64Sizes = types.SizesFor("gc", "amd64")

// maxElems: the largest slice capacity the amd64 runtime can allocate for this element type
// (maxAlloc = 2^47 bytes); zero-size elements are capped at 2^47 as well.
func maxElems(elem types.Type) *Term {
	sz := amd64Sizes.Sizeof(elem)
	if sz <= 0 {
		sz = 1
	}
	return IntLit((int64(1) << 47) / sz)
}

// addrEscapes: the address value is used for anything but loading, storing through it, or taking
// the address of a sub-component.
func addrEscapes(v ssa.Value) bool {
	refs := v.Referrers()
	if refs == nil {
		return true
	}
	for _, r := range *refs {
		switch x := r.(type) {
		case *ssa.DebugRef:
		case *ssa.UnOp:
			if x.Op != token.MUL {
				return true
			}
		case *ssa.Store:
			if x.Val == v {
				return true
			}
		case *ssa.FieldAddr:
			if addrEscapes(x) {
				return true
			}
		case *ssa.IndexAddr:
			if x.X != v || addrEscapes(x) {
				return true
			}
		default:
			return true
		}
	}
	return false
}

// ---------- if-conversion of simple triangles / diamonds ----------
// `if c { x = v }` and `if c { x = v } else { x = w }` whose branches only assign local variables
// (constants, values already computed, float arithmetic on them) are executed without forking the
// path: afterwards each assigned local holds ite(c, then-value, else-value). Pure path-count
// reduction; nothing is assumed.

func simpleBranchBlock(b *ssa.BasicBlock) bool {
	if len(b.Succs) != 1 || len(b.Preds) != 1 || len(b.Instrs) == 0 {
		return false
	}
	if _, ok := b.Instrs[len(b.Instrs)-1].(*ssa.Jump); !ok {
		return false
	}
	for _, in := range b.Instrs[:len(b.Instrs)-1] {
		switch x := in.(type) {
		case *ssa.DebugRef:
		case *ssa.Store:
			a, ok := x.Addr.(*ssa.Alloc)
			if !ok || a.Heap {
				return false
			}
		case *ssa.UnOp:
			if x.Op != token.MUL {
				return false
			}
			a, ok := x.X.(*ssa.Alloc)
			if !ok || a.Heap {
				return false
			}
		case *ssa.BinOp:
			if !isFloat(x.X.Type()) {
				return false
			}
		default:
			return false
		}
	}
	return true
}

func startsWithPhi(b *ssa.BasicBlock) bool {
	if len(b.Instrs) == 0 {
		return false
	}
	_, ok := b.Instrs[0].(*ssa.Phi)
	return ok
}

func (u *Unit) tryIfConvert(s *State, f *Frame, c *Term, tb, fb *ssa.BasicBlock) bool {
	var join *ssa.BasicBlock
	var thenB, elseB *ssa.BasicBlock
	switch {
	case simpleBranchBlock(tb) && simpleBranchBlock(fb) && tb.Succs[0] == fb.Succs[0] && tb != fb:
		join, thenB, elseB = tb.Succs[0], tb, fb
	case simpleBranchBlock(tb) && tb.Succs[0] == fb:
		join, thenB = fb, tb
	case simpleBranchBlock(fb) && fb.Succs[0] == tb:
		join, elseB = tb, fb
	default:
		return false
	}
	if startsWithPhi(join) {
		return false
	}
	li := u.V.loops(f.Fn)
	for _, b := range []*ssa.BasicBlock{thenB, elseB} {
		if b != nil {
			if _, isHead := li.body[b]; isHead {
				return false
			}
		}
	}
	run := func(b *ssa.BasicBlock) (map[*ssa.Alloc]*Term, bool) {
		if b == nil {
			return map[*ssa.Alloc]*Term{}, true
		}
		st := s.clone()
		fr := st.top()
		fr.Prev, fr.Block, fr.Idx = f.Block, b, 0
		nObl := len(u.Obls)
		for _, in := range b.Instrs[:len(b.Instrs)-1] {
			fr.Idx++
			if forks := u.exec(st, fr, in); len(forks) > 0 || st.Dead {
				return nil, false
			}
		}
		if len(u.Obls) != nObl {
			return nil, false // an obligation was generated inside the branch: keep the fork
		}
		// definitions of fresh names introduced while executing the branch are unconditional
		s.Decls = append(s.Decls, st.Decls[len(s.Decls):]...)
		s.PC = append(s.PC, st.PC[len(s.PC):]...)
		out := map[*ssa.Alloc]*Term{}
		for a, v := range fr.Cells {
			if old, ok := f.Cells[a]; ok && old != v {
				out[a] = v
			}
		}
		return out, true
	}
	tv, ok1 := run(thenB)
	if !ok1 {
		return false
	}
	ev, ok2 := run(elseB)
	if !ok2 {
		return false
	}
	for a, v := range tv {
		w, ok := ev[a]
		if !ok {
			w = f.Cells[a]
		}
		f.Cells[a] = Ite(c, v, w)
	}
	for a, w := range ev {
		if _, done := tv[a]; !done {
			f.Cells[a] = Ite(c, f.Cells[a], w)
		}
	}
	if os.Getenv("GOVC_DEBUG_IFCONV") != "" {
		fmt.Fprintf(os.Stderr, "ifconv %s block %d\n", f.Fn.Name(), f.Block.Index)
	}
	u.jump(s, f, join)
	return true
}

package govc

import (
	"sort"
	"strconv"
	"fmt"
	"go/token"
	"go/types"
	"math"
	"math/big"
	"strings"

	"golang.org/x/tools/go/ssa"
)

// SpecEnv is the evaluation context of a contract expression.
type SpecEnv struct {
	u        *Unit
	s        *State
	f        *Frame
	names    map[string]Value
	oldNames map[string]Value
	old      *snapshot // state for old(); nil = unit entry
	useOld   bool      // evaluate everything in the old state
	bound    map[string]Value
	cf       *ContractFile
	pkg      *types.Package
}

func (u *Unit) specEnv(s *State, f *Frame) *SpecEnv {
	env := &SpecEnv{u: u, s: s, f: f, names: map[string]Value{}, cf: u.V.contractFileFor(u.Fn)}
	for k, v := range u.ParamVals {
		env.names[k] = v
	}
	env.oldNames = u.ParamVals
	env.old = s.Entry
	return env
}

func (e *SpecEnv) heaps() map[string]*Term {
	if e.useOld {
		if e.old != nil {
			return e.old.Heaps
		}
		return e.s.Entry.Heaps
	}
	return e.s.Heaps
}

func (e *SpecEnv) heapFor(kind string, elem types.Type) *Term {
	u := e.u
	if e.useOld {
		return u.heapIn(e.heaps(), kind, elem)
	}
	_, h := u.heap(e.s, kind, elem)
	return h
}

func (e *SpecEnv) lookup(name string) (Value, bool) {
	if v, ok := e.bound[name]; ok {
		return v, true
	}
	// inside old(): parameters denote their entry values; other locals their current values
	if e.useOld && e.oldNames != nil {
		if v, ok := e.oldNames[name]; ok {
			return v, true
		}
	}
	// locals of the current frame by source name (current value of the cell)
	if e.f != nil {
		if v, ok := e.localByName(name); ok {
			return v, true
		}
	}
	if v, ok := e.names[name]; ok {
		return v, true
	}
	return Value{}, false
}

func (e *SpecEnv) localByName(name string) (Value, bool) {
	// name#n selects the n-th declaration (source order) of a shadowed local
	if i := strings.Index(name, "#"); i > 0 {
		base := name[:i]
		n, err := strconv.Atoi(name[i+1:])
		if err == nil {
			var cands []*ssa.Alloc
			for a := range e.f.Cells {
				if a.Comment == base {
					cands = append(cands, a)
				}
			}
			sort.Slice(cands, func(x, y int) bool { return cands[x].Pos() < cands[y].Pos() })
			if n >= 1 && n <= len(cands) {
				return Value{T: e.f.Cells[cands[n-1]], Ty: cands[n-1].Type().(*types.Pointer).Elem()}, true
			}
		}
		return Value{}, false
	}
	var best *ssa.Alloc
	var same []*ssa.Alloc
	for a := range e.f.Cells {
		if a.Comment == name {
			same = append(same, a)
		}
	}
	if len(same) > 1 && len(e.f.Loops) > 0 {
		// several cells of this name (e.g. the hidden index of two range loops): the one the
		// innermost active loop advances in its head block
		head := e.f.Loops[len(e.f.Loops)-1].Head
		var inHead []*ssa.Alloc
		for _, a := range same {
			for _, r := range *a.Referrers() {
				if st, ok := r.(*ssa.Store); ok && st.Addr == a && st.Block() == head {
					inHead = append(inHead, a)
					break
				}
			}
		}
		if len(inHead) == 1 {
			same = inHead
		}
	}
	for _, a := range same {
		// innermost/latest declaration wins; ties (no position) by order of allocation in the function
		if best == nil || a.Pos() > best.Pos() || (a.Pos() == best.Pos() && allocOrder(a) > allocOrder(best)) {
			best = a
		}
	}
	if best != nil {
		return Value{T: e.f.Cells[best], Ty: best.Type().(*types.Pointer).Elem()}, true
	}
	// escaping locals live in the P-heap; find by name among the frame's values
	for v, val := range e.f.Vals {
		if a, ok := v.(*ssa.Alloc); ok && a.Heap && a.Comment == name && val.T != nil {
			pt := a.Type().(*types.Pointer).Elem()
			if _, isArr := pt.Underlying().(*types.Array); isArr {
				continue
			}
			h := e.heapFor("P", pt)
			return Value{T: Select(h, val.T), Ty: pt}, true
		}
	}
	return Value{}, false
}

// allocOrder: a deterministic order of the allocs of one function (block index, instruction index)
func allocOrder(a *ssa.Alloc) int {
	b := a.Block()
	if b == nil {
		return -1
	}
	for i, in := range b.Instrs {
		if in == a {
			return b.Index*100000 + i
		}
	}
	return b.Index * 100000
}

func (u *Unit) evalBool(env *SpecEnv, e Expr) *Term {
	v := u.evalSpec(env, e)
	if v.T == nil || v.T.Sort != "Bool" {
		u.specErr("expected a boolean: %s", e.exprString())
	}
	return v.T
}

type specError string

func (u *Unit) specErr(format string, args ...interface{}) {
	panic(unsupportedErr("contract: " + fmt.Sprintf(format, args...)))
}

var intType = types.Typ[types.Int]
var boolType = types.Typ[types.Bool]
var floatType = types.Typ[types.Float64]

func (u *Unit) evalSpec(env *SpecEnv, e Expr) Value {
	w := u.W
	switch x := e.(type) {
	case *EInt:
		return Value{T: BigLit(x.Val), Ty: intType}
	case *EFloat:
		return Value{T: w.FConst(x.Val), Ty: floatType}
	case *EBool:
		if x.Val {
			return Value{T: True, Ty: boolType}
		}
		return Value{T: False, Ty: boolType}
	case *EStr:
		return Value{T: w.StrConst(x.Val), Ty: types.Typ[types.String]}
	case *EIdent:
		if x.Name == "nil" {
			return Value{T: IntLit(0), Ty: types.Typ[types.UntypedNil]}
		}
		if v, ok := env.lookup(x.Name); ok {
			return v
		}
		switch x.Name {
		case "alloc0":
			return Value{T: env.s.Entry.Alloc, Ty: intType}
		case "alloc":
			return Value{T: env.s.Alloc, Ty: intType}
		}
		// package-level constants and variables
		if v, ok := u.pkgObject(env, x.Name); ok {
			return v
		}
		u.specErr("unknown identifier %q", x.Name)
	case *EOld:
		sub := *env
		sub.useOld = true
		return u.evalSpec(&sub, x.X)
	case *EUnary:
		v := u.evalSpec(env, x.X)
		switch x.Op {
		case "*":
			// dereference of a pointer to a non-array value
			if v.P != nil && v.T == nil {
				// address of a field/element (e.g. &v.maxHeap handed to a pointer-receiver method)
				pt, ok := v.Ty.Underlying().(*types.Pointer)
				if !ok || v.P.Kind != PCell {
					u.specErr("dereference of a local or element address in a contract")
				}
				h := env.heapFor("P", v.P.Elem)
				return Value{T: u.applyPath(Select(h, v.P.Ref), v.P.Path), Ty: pt.Elem()}
			}
			if pt, ok := v.Ty.Underlying().(*types.Pointer); ok {
				h := env.heapFor("P", pt.Elem())
				return Value{T: Select(h, v.T), Ty: pt.Elem()}
			}
			u.specErr("dereference of %s", v.Ty)
		case "!":
			return Value{T: Not(v.T), Ty: boolType}
		case "-":
			if isFloat(v.Ty) {
				return Value{T: w.FNeg(v.T), Ty: v.Ty}
			}
			return Value{T: Neg(v.T), Ty: v.Ty}
		}
	case *EBinary:
		return u.evalBinary(env, x)
	case *EQuant:
		sub := *env
		sub.bound = map[string]Value{}
		for k, v := range env.bound {
			sub.bound[k] = v
		}
		var vars []*Term
		var guards []*Term
		for _, qv := range x.Vars {
			ty := types.Type(intType)
			if qv.Type != "" {
				ty = u.resolveType(env, qv.Type)
			}
			u.qcount++
			bv := Leaf(fmt.Sprintf("%s!q%d", qv.Name, u.qcount), w.SortOf(ty))
			vars = append(vars, bv)
			sub.bound[qv.Name] = Value{T: bv, Ty: ty}
			if ty != intType && needsWF(ty) {
				guards = append(guards, u.wf(env.s, ty, bv))
			}
		}
		body := u.evalBool(&sub, x.Body)
		if x.Forall {
			return Value{T: Forall(vars, Implies(And(guards...), body)), Ty: boolType}
		}
		return Value{T: Exists(vars, And(append(guards, body)...)), Ty: boolType}
	case *EIndex:
		base := u.evalSpec(env, x.X)
		idx := u.evalSpec(env, x.I)
		return u.specIndex(env, base, u.toInt(idx.T, idx.Ty))
	case *EField:
		// package-qualified identifier?
		if id, ok := x.X.(*EIdent); ok {
			if _, isLocal := env.lookup(id.Name); !isLocal {
				if v, ok := u.qualifiedObject(env, id.Name, x.Name); ok {
					return v
				}
			}
		}
		base := u.evalSpec(env, x.X)
		return u.specField(env, base, x.Name)
	case *ESlice:
		base := u.evalSpec(env, x.X)
		bt := base.T
		var lo, hi *Term
		lo = IntLit(0)
		if x.Lo != nil {
			lo = u.evalSpec(env, x.Lo).T
		}
		if _, ok := base.Ty.Underlying().(*types.Slice); ok {
			hi = w.SLen(bt)
			if x.Hi != nil {
				hi = u.evalSpec(env, x.Hi).T
			}
			return Value{T: w.MkSlice(w.SRef(bt), Add(w.SOff(bt), lo), Sub(hi, lo), Sub(w.SCap(bt), lo)), Ty: base.Ty}
		}
		u.specErr("slice expression on %s", base.Ty)
	case *ECall:
		return u.evalSpecCall(env, x)
	}
	u.specErr("cannot evaluate %s", e.exprString())
	return Value{}
}

func (u *Unit) specIndex(env *SpecEnv, base Value, idx *Term) Value {
	w := u.W
	switch bt := base.Ty.Underlying().(type) {
	case *types.Slice:
		h := env.heapFor("S", bt.Elem())
		return Value{T: Select(Select(h, w.SRef(base.T)), w.At(w.SOff(base.T), idx)), Ty: bt.Elem()}
	case *types.Array:
		dt := w.ArrayDT(bt)
		step := PathStep{Field: -1, Index: idx, DT: dt}
		if iv, ok := idx.intVal(); ok && iv.IsInt64() && iv.Int64() >= 0 && iv.Int64() < int64(len(dt.Fields)) {
			step = PathStep{Field: int(iv.Int64()), DT: dt}
		}
		return Value{T: u.applyPath(base.T, []PathStep{step}), Ty: bt.Elem()}
	case *types.Basic:
		if bt.Info()&types.IsString != 0 {
			return Value{T: Select(w.StrChars(base.T), idx), Ty: types.Typ[types.Byte]}
		}
	case *types.Pointer:
		if arr, ok := bt.Elem().Underlying().(*types.Array); ok {
			h := env.heapFor("S", arr.Elem())
			return Value{T: Select(Select(h, base.T), idx), Ty: arr.Elem()}
		}
	case *types.Map:
		return u.specMapIndex(env, base, idx)
	}
	u.specErr("index on %s", base.Ty)
	return Value{}
}

func (u *Unit) specField(env *SpecEnv, base Value, name string) Value {
	w := u.W
	ty := base.Ty
	t := base.T
	if pt, ok := ty.Underlying().(*types.Pointer); ok {
		h := env.heapFor("P", pt.Elem())
		t = Select(h, t)
		ty = pt.Elem()
	}
	st, ok := ty.Underlying().(*types.Struct)
	if !ok {
		// pseudo-fields
		switch name {
		case "ref":
			if isSliceType(ty) {
				return Value{T: w.SRef(t), Ty: intType}
			}
		case "off":
			if isSliceType(ty) {
				return Value{T: w.SOff(t), Ty: intType}
			}
		case "tag":
			if _, ok := ty.Underlying().(*types.Interface); ok {
				return Value{T: Sel(w.IfaceDT(), 0, t), Ty: intType}
			}
		}
		u.specErr("field %s on %s", name, ty)
	}
	dt := w.StructDT(ty)
	for i := 0; i < st.NumFields(); i++ {
		if st.Field(i).Name() == name {
			return Value{T: Sel(dt, i, t), Ty: st.Field(i).Type()}
		}
	}
	// promoted fields through embedded structs
	for i := 0; i < st.NumFields(); i++ {
		if st.Field(i).Embedded() {
			inner := Value{T: Sel(dt, i, t), Ty: st.Field(i).Type()}
			if _, ok := derefStruct(inner.Ty); ok {
				if hasField(inner.Ty, name) {
					return u.specField(env, inner, name)
				}
			}
		}
	}
	u.specErr("no field %s in %s", name, ty)
	return Value{}
}

func derefStruct(t types.Type) (*types.Struct, bool) {
	if p, ok := t.Underlying().(*types.Pointer); ok {
		t = p.Elem()
	}
	s, ok := t.Underlying().(*types.Struct)
	return s, ok
}
func hasField(t types.Type, name string) bool {
	s, ok := derefStruct(t)
	if !ok {
		return false
	}
	for i := 0; i < s.NumFields(); i++ {
		if s.Field(i).Name() == name {
			return true
		}
	}
	return false
}

func (u *Unit) evalBinary(env *SpecEnv, x *EBinary) Value {
	w := u.W
	switch x.Op {
	case "&&":
		return Value{T: And(u.evalBool(env, x.X), u.evalBool(env, x.Y)), Ty: boolType}
	case "||":
		return Value{T: Or(u.evalBool(env, x.X), u.evalBool(env, x.Y)), Ty: boolType}
	case "==>":
		return Value{T: Implies(u.evalBool(env, x.X), u.evalBool(env, x.Y)), Ty: boolType}
	case "<==>":
		return Value{T: Eq(u.evalBool(env, x.X), u.evalBool(env, x.Y)), Ty: boolType}
	}
	a := u.evalSpec(env, x.X)
	b := u.evalSpec(env, x.Y)
	// untyped int literal meeting a float: convert
	if isFloat(a.Ty) && isIntLit(x.Y) {
		b = Value{T: w.FConst(litFloat(x.Y)), Ty: a.Ty}
	}
	if isFloat(b.Ty) && isIntLit(x.X) {
		a = Value{T: w.FConst(litFloat(x.X)), Ty: b.Ty}
	}
	if a.T != nil && b.T != nil {
		a.T = coerceLit(a.T, b.T)
		b.T = coerceLit(b.T, a.T)
	}
	if a.T != nil && b.T != nil && isBVSort(a.T.Sort) && isBVSort(b.T.Sort) && x.Op != "==" && x.Op != "!=" {
		return u.specBV(env, x.Op, a, b)
	}
	if (x.Op == "==" || x.Op == "!=") && a.T != nil && b.T != nil {
		// an interface compared with a concrete value: the value is converted to the interface
		_, ai := a.Ty.Underlying().(*types.Interface)
		_, bi := b.Ty.Underlying().(*types.Interface)
		if ai && !bi && !isUntypedNil(b.Ty) {
			b = Value{T: u.makeIface(env.s, b, b.Ty), Ty: a.Ty}
		} else if bi && !ai && !isUntypedNil(a.Ty) {
			a = Value{T: u.makeIface(env.s, a, a.Ty), Ty: b.Ty}
		}
	}
	switch x.Op {
	case "==", "!=":
		var eq *Term
		if (a.P != nil && a.T == nil) || (b.P != nil && b.T == nil) {
			// the address of a field or element is never nil
			if isUntypedNil(a.Ty) || isUntypedNil(b.Ty) {
				eq = False
			} else {
				u.specErr("comparison of interior addresses in a contract")
			}
		} else if isUntypedNil(a.Ty) {
			eq = u.eqTerms(env.s, b.Ty, b.T, u.nilOf(b.Ty), b.Ty)
		} else if isUntypedNil(b.Ty) {
			eq = u.eqTerms(env.s, a.Ty, a.T, u.nilOf(a.Ty), a.Ty)
		} else if isSliceType(a.Ty) {
			eq = Eq(a.T, b.T) // header identity (spec-level)
		} else {
			eq = u.eqTerms(env.s, a.Ty, a.T, b.T, b.Ty)
		}
		if x.Op == "!=" {
			eq = Not(eq)
		}
		return Value{T: eq, Ty: boolType}
	}
	if isFloat(a.Ty) {
		switch x.Op {
		case "+", "-", "*", "/":
			return Value{T: w.fbin(x.Op, a.T, b.T), Ty: a.Ty}
		case "<", "<=", ">", ">=":
			return Value{T: w.FCmp(x.Op, a.T, b.T), Ty: boolType}
		}
	}
	switch x.Op {
	case "+":
		return Value{T: Add(a.T, b.T), Ty: a.Ty}
	case "-":
		return Value{T: Sub(a.T, b.T), Ty: a.Ty}
	case "*":
		return Value{T: Mul(a.T, b.T), Ty: a.Ty}
	case "/":
		return Value{T: TDiv(a.T, b.T), Ty: a.Ty}
	case "%":
		return Value{T: TRem(a.T, b.T), Ty: a.Ty}
	case "<":
		return Value{T: Lt(a.T, b.T), Ty: boolType}
	case "<=":
		return Value{T: Le(a.T, b.T), Ty: boolType}
	case ">":
		return Value{T: Gt(a.T, b.T), Ty: boolType}
	case ">=":
		return Value{T: Ge(a.T, b.T), Ty: boolType}
	case "<<":
		if bv, ok := b.T.intVal(); ok {
			return Value{T: Mul(a.T, pow2(uint(bv.Int64()))), Ty: a.Ty}
		}
	case ">>":
		if bv, ok := b.T.intVal(); ok {
			return Value{T: EDiv(a.T, pow2(uint(bv.Int64()))), Ty: a.Ty}
		}
	case "&":
		if bv, ok := b.T.intVal(); ok {
			if k, ok := lowMask(bv); ok {
				return Value{T: EMod(a.T, pow2(k)), Ty: a.Ty}
			}
		}
	}
	if tok, ok := map[string]token.Token{"&": token.AND, "|": token.OR, "^": token.XOR, "&^": token.AND_NOT}[x.Op]; ok {
		if bt, ok := a.Ty.Underlying().(*types.Basic); ok && bt.Info()&types.IsInteger != 0 && bt.Info()&types.IsUntyped == 0 {
			return Value{T: u.bitop(env.s, tok, a.T, b.T, a.Ty), Ty: a.Ty}
		}
	}
	u.specErr("binary %s on %s", x.Op, a.Ty)
	return Value{}
}

func isFloatSort(s string) bool { return s == "Float" }
func isIntLit(e Expr) bool      { _, ok := e.(*EInt); return ok }
func litFloat(e Expr) float64 {
	f, _ := new(big_Float).SetInt(e.(*EInt).Val).Float64()
	return f
}
func isUntypedNil(t types.Type) bool {
	b, ok := t.(*types.Basic)
	return ok && b.Kind() == types.UntypedNil
}
func (u *Unit) nilOf(t types.Type) *Term { return u.W.Zero(t) }

func (u *Unit) resolveType(env *SpecEnv, txt string) (t types.Type) {
	pkg := u.Pkg.Pkg
	if env != nil && env.pkg != nil {
		pkg = env.pkg
	} else if env != nil && env.cf != nil {
		if sp, ok := u.V.SSAPkgs[env.cf.PkgPath]; ok {
			pkg = sp.Pkg
		}
	}
	key := pkg.Path() + "|" + txt
	u.V.mu.Lock()
	ct, ok := u.V.typeCache[key]
	u.V.mu.Unlock()
	if ok {
		return ct
	}
	defer func() {
		if t != nil {
			u.V.mu.Lock()
			u.V.typeCache[key] = t
			u.V.mu.Unlock()
		}
	}()
	if strings.HasPrefix(txt, "*") {
		return types.NewPointer(u.resolveType(env, txt[1:]))
	}
	if strings.HasPrefix(txt, "[]") {
		return types.NewSlice(u.resolveType(env, txt[2:]))
	}
	if i := strings.Index(txt, "."); i > 0 && !strings.ContainsAny(txt, "[]*( ") {
		// qualified name: find the package by name among the loaded packages
		pn, name := txt[:i], txt[i+1:]
		var cands []*types.Package
		for _, sp := range u.V.Prog.AllPackages() {
			if sp.Pkg.Name() == pn {
				cands = append(cands, sp.Pkg)
			}
		}
		for _, cp := range cands {
			// prefer packages imported by pkg
			for _, imp := range pkg.Imports() {
				if imp == cp {
					if o := cp.Scope().Lookup(name); o != nil {
						if tn, ok := o.(*types.TypeName); ok {
							return tn.Type()
						}
					}
				}
			}
		}
		for _, cp := range cands {
			if o := cp.Scope().Lookup(name); o != nil {
				if tn, ok := o.(*types.TypeName); ok && (u.V.inRepoPkg(cp.Path()) || !strings.Contains(cp.Path(), "/")) {
					return tn.Type()
				}
			}
		}
	}
	tv, err := types.Eval(u.V.Prog.Fset, pkg, token.NoPos, txt)
	if err != nil || tv.Type == nil {
		u.specErr("cannot resolve type %q: %v", txt, err)
	}
	return tv.Type
}

func (u *Unit) pkgObject(env *SpecEnv, name string) (Value, bool) {
	if env != nil && env.cf != nil {
		if sp, ok := u.V.SSAPkgs[env.cf.PkgPath]; ok {
			if v, ok := u.objectIn(env, sp, name); ok {
				return v, true
			}
		}
	}
	return u.objectIn(env, u.Pkg, name)
}

func (u *Unit) qualifiedObject(env *SpecEnv, pkgName, name string) (Value, bool) {
	for _, p := range u.V.Prog.AllPackages() {
		if p.Pkg.Name() == pkgName && u.V.inRepoPkg(p.Pkg.Path()) {
			if v, ok := u.objectIn(env, p, name); ok {
				return v, true
			}
		}
	}
	// package-level variables of other packages (e.g. binary.LittleEndian)
	for _, p := range u.V.Prog.AllPackages() {
		if p.Pkg.Name() == pkgName && !u.V.inRepoPkg(p.Pkg.Path()) {
			if g, ok := p.Members[name].(*ssa.Global); ok {
				return Value{T: u.globalVal(env.s, g), Ty: g.Type().(*types.Pointer).Elem()}, true
			}
		}
	}
	if pkgName == "math" {
		switch name {
		case "MaxInt32":
			return Value{T: IntLit(math.MaxInt32), Ty: intType}, true
		case "MaxUint32":
			return Value{T: IntLit(math.MaxUint32), Ty: intType}, true
		case "MaxInt64":
			return Value{T: IntLit(math.MaxInt64), Ty: intType}, true
		}
	}
	return Value{}, false
}

func (u *Unit) objectIn(env *SpecEnv, pkg *ssa.Package, name string) (Value, bool) {
	m := pkg.Members[name]
	switch x := m.(type) {
	case *ssa.NamedConst:
		return u.constVal(x.Value), true
	case *ssa.Global:
		pt := x.Type().(*types.Pointer).Elem()
		if env.useOld {
			// globals at entry: only constants or never-written ones are meaningful
		}
		return Value{T: u.globalVal(env.s, x), Ty: pt}, true
	}
	return Value{}, false
}

// ---------- locations (modifies clauses) ----------

type specLoc struct {
	key    string
	ref    *Term
	lo, hi *Term // index range for slice locations; nil for cells
	cond   *Term // the location is part of the frame only when this holds (nil: always)
}

func (u *Unit) evalLoc(env *SpecEnv, e Expr) *specLoc {
	w := u.W
	if cl, ok := e.(*ECondLoc); ok {
		loc := u.evalLoc(env, cl.Loc)
		if loc != nil {
			loc.cond = u.evalBool(env, cl.Cond)
		}
		return loc
	}
	switch x := e.(type) {
	case *ESlice:
		base := u.evalSpec(env, x.X)
		sl, ok := base.Ty.Underlying().(*types.Slice)
		if !ok {
			u.specErr("modifies %s: not a slice", e.exprString())
		}
		lo := w.SOff(base.T)
		if x.Lo != nil {
			lo = Add(lo, u.evalSpec(env, x.Lo).T)
		}
		hi := Add(w.SOff(base.T), w.SCap(base.T)) // [*] covers up to cap (append in place)
		if x.Hi != nil {
			hi = Add(w.SOff(base.T), u.evalSpec(env, x.Hi).T)
		}
		return &specLoc{key: "S:" + TypeKey(sl.Elem()), ref: w.SRef(base.T), lo: lo, hi: hi}
	case *EUnary:
		if x.Op == "*" {
			base := u.evalSpec(env, x.X)
			pt, ok := base.Ty.Underlying().(*types.Pointer)
			if !ok {
				u.specErr("modifies *%s: not a pointer", x.X.exprString())
			}
			if base.T == nil && base.P != nil {
				// the address of a field or element passed as an argument: the pointed-to component is
				// havoced by the call rule for interior pointers, not through a heap row
				return nil
			}
			return &specLoc{key: "P:" + TypeKey(pt.Elem()), ref: base.T}
		}
	case *EIdent, *EField:
		base := u.evalSpec(env, e)
		if pt, ok := base.Ty.Underlying().(*types.Pointer); ok {
			return &specLoc{key: "P:" + TypeKey(pt.Elem()), ref: base.T}
		}
		if _, ok := base.Ty.Underlying().(*types.Map); ok {
			return &specLoc{key: "M:" + TypeKey(base.Ty), ref: base.T}
		}
	}
	u.specErr("unsupported modifies location %s", e.exprString())
	return nil
}

// ---------- calls in contracts ----------

func (u *Unit) evalSpecCall(env *SpecEnv, c *ECall) Value {
	w := u.W
	var name string
	switch fx := c.Fun.(type) {
	case *EIdent:
		name = fx.Name
	case *EField:
		if id, ok := fx.X.(*EIdent); ok {
			name = id.Name + "." + fx.Name
		} else if inner, ok := fx.X.(*EField); ok {
			// pkg.Type.Method(recv, args...)
			if id, ok := inner.X.(*EIdent); ok {
				name = id.Name + "." + inner.Name + "." + fx.Name
			}
		}
	}
	arg := func(i int) Value { return u.evalSpec(env, c.Args[i]) }
	switch name {
	case "len", "cap":
		a := arg(0)
		switch ut := a.Ty.Underlying().(type) {
		case *types.Slice:
			if name == "len" {
				return Value{T: u.fromInt(w.SLen(a.T), intType), Ty: intType}
			}
			return Value{T: u.fromInt(w.SCap(a.T), intType), Ty: intType}
		case *types.Basic:
			return Value{T: u.fromInt(w.StrLen(a.T), intType), Ty: intType}
		case *types.Array:
			return Value{T: u.fromInt(IntLit(ut.Len()), intType), Ty: intType}
		case *types.Map:
			return Value{T: u.fromInt(u.specMapLen(env, a), intType), Ty: intType}
		}
		u.specErr("len of %s", a.Ty)
	case "fresh":
		// backing array allocated during the call (or nil)
		a := arg(0)
		var ref *Term
		switch a.Ty.Underlying().(type) {
		case *types.Slice:
			ref = w.SRef(a.T)
		case *types.Pointer, *types.Map:
			ref = a.T
		default:
			u.specErr("fresh of %s", a.Ty)
		}
		base := env.s.Entry.Alloc
		if env.old != nil {
			base = env.old.Alloc
		}
		return Value{T: Or(Eq(ref, IntLit(0)), And(Ge(ref, base), Lt(ref, env.s.Alloc))), Ty: boolType}
	case "mk":
		// mk(T, fields...): value of struct/array type T
		ty := u.resolveType(env, c.Args[0].exprString())
		dt := w.DTOf(ty)
		if dt == nil || len(dt.Fields) != len(c.Args)-1 {
			u.specErr("mk(%s, ...): wrong number of components", c.Args[0].exprString())
		}
		var ts []*Term
		for i := 1; i < len(c.Args); i++ {
			av := arg(i)
			if isFloatSort(dt.Fields[i-1].Sort) && isIntLit(c.Args[i]) {
				av = Value{T: w.FConst(litFloat(c.Args[i])), Ty: floatType}
			}
			ts = append(ts, av.T)
		}
		return Value{T: Mk(dt, ts...), Ty: ty}
	case "oldat":
		// oldat(x, i): element i of slice x as it was in the old heap; x and i themselves are
		// evaluated in the current state (unlike old(x[i]), which evaluates i in the old state too)
		base := arg(0)
		idx := arg(1)
		sub := *env
		sub.useOld = true
		return u.specIndex(&sub, base, u.toInt(idx.T, idx.Ty))
	case "has":
		m := arg(0)
		k := arg(1)
		return Value{T: u.specMapHas(env, m, k.T), Ty: boolType}
	case "same":
		a, b := arg(0), arg(1)
		return Value{T: Eq(a.T, b.T), Ty: boolType}
	case "ite":
		cnd := u.evalBool(env, c.Args[0])
		a, b := arg(1), arg(2)
		return Value{T: Ite(cnd, a.T, b.T), Ty: a.Ty}
	case "bits":
		// bit pattern of a float64 as an integer (only in `floats bits` mode, where it is the value itself)
		a := arg(0)
		if u.W.FM != FloatBits {
			// outside `floats bits` the bit pattern is an opaque function of the value
			return Value{T: u.W.UF("fbits", []string{"Float"}, "Int", a.T), Ty: types.Typ[types.Uint64]}
		}
		return Value{T: Leaf(a.T.String(), "Int"), Ty: types.Typ[types.Uint64]}
	case "isnan":
		a := arg(0)
		return Value{T: u.fIsNaN(a.T), Ty: boolType}
	case "typeof":
		a := arg(0)
		return Value{T: Sel(w.IfaceDT(), 0, a.T), Ty: intType}
	case "istype":
		// istype(g, T): dynamic type of interface g is T
		a := arg(0)
		tn := c.Args[1].exprString()
		ty := u.resolveType(env, tn)
		return Value{T: Eq(Sel(w.IfaceDT(), 0, a.T), IntLit(int64(w.TypeID(ty)))), Ty: boolType}
	case "as":
		// as(g, T): payload of interface g as T
		a := arg(0)
		tn := c.Args[1].exprString()
		ty := u.resolveType(env, tn)
		return Value{T: u.unbox(env.s, a.T, ty), Ty: ty}
	case "float64", "int", "int64", "uint32", "uint64", "int32", "uint8", "byte", "uint":
		a := arg(0)
		to := u.resolveType(env, name)
		if isFloat(to) && isInteger(a.Ty) {
			return Value{T: u.intToFloat(env.s, a.T, a.Ty.Underlying().(*types.Basic), to.Underlying().(*types.Basic)), Ty: to}
		}
		if isInteger(to) && isInteger(a.Ty) {
			return u.convert(env.s, nil, a, a.Ty, to)
		}
		if isFloat(to) && isFloat(a.Ty) {
			return Value{T: a.T, Ty: to}
		}
		if isInteger(to) && isFloat(a.Ty) && u.W.FM == FloatAbstract {
			// same uninterpreted conversion function the executed code uses in this float mode
			bits, signed := intBits(to.Underlying().(*types.Basic))
			fname := fmt.Sprintf("f2i_%d", bits)
			if !signed {
				fname = fmt.Sprintf("f2u_%d", bits)
			}
			u.W.needAbstractOps()
			u.W.Declare(fname, fmt.Sprintf("(declare-fun %s (Float) Int)", fname))
			return Value{T: App(fname, "Int", a.T), Ty: to}
		}
		u.specErr("conversion %s(%s)", name, a.Ty)
	case "math.Min", "math.Max", "math.Abs", "math.Sqrt", "math.Floor", "math.Inf", "math.IsNaN", "math.NaN":
		var args []Value
		for i := range c.Args {
			args = append(args, arg(i))
		}
		if r, ok := u.mathOp(env.s, name, args); ok {
			return r
		}
	}
	// application of a function-typed field, e.g. s.DistanceFunc(a, b)
	if fe, ok := c.Fun.(*EField); ok && !isPkgTypeMethod(env, fe) {
		if _, isPkg := fe.X.(*EIdent); !isPkg || func() bool { _, l := env.lookup(fe.X.(*EIdent).Name); return l }() {
			fv := u.evalSpec(env, fe)
			if sig, isSig := fv.Ty.Underlying().(*types.Signature); isSig && sig.Results().Len() == 1 && fv.T != nil {
				sorts := []string{"Int"}
				ts := []*Term{fv.T}
				for i := range c.Args {
					a := arg(i)
					sorts = append(sorts, a.T.Sort)
					ts = append(ts, a.T)
				}
				rt := sig.Results().At(0).Type()
				uname := fmt.Sprintf("apply_%s_%d", sanitize(TypeKey(fv.Ty)), 0)
				return Value{T: w.UF(uname, sorts, w.SortOf(rt), ts...), Ty: rt}
			}
		}
	}
	// application of a function-typed parameter (pure, total, deterministic: uninterpreted)
	if id, ok := c.Fun.(*EIdent); ok {
		if fv, found := env.lookup(id.Name); found && fv.T != nil {
			if sig, isSig := fv.Ty.Underlying().(*types.Signature); isSig && sig.Results().Len() == 1 {
				sorts := []string{"Int"}
				ts := []*Term{fv.T}
				for i := range c.Args {
					a := arg(i)
					sorts = append(sorts, a.T.Sort)
					ts = append(ts, a.T)
				}
				rt := sig.Results().At(0).Type()
				uname := fmt.Sprintf("apply_%s_%d", sanitize(TypeKey(fv.Ty)), 0)
				return Value{T: w.UF(uname, sorts, w.SortOf(rt), ts...), Ty: rt}
			}
		}
	}
	// a real function declared `function` (pure, deterministic): uninterpreted application;
	// `f__1(args)` names its second result
	resIdx := 0
	fname := name
	if i := strings.LastIndex(name, "__"); i > 0 {
		if n, err := strconv.Atoi(name[i+2:]); err == nil {
			resIdx, fname = n, name[:i]
		}
	}
	// names in a contract are resolved in the package the contract was written in (a callee's
	// contract evaluated at a call site in another package must not pick up the caller's functions)
	spkg := u.Pkg
	if env.cf != nil {
		if sp, ok := u.V.SSAPkgs[env.cf.PkgPath]; ok {
			spkg = sp
		}
	}
	if fn := u.V.repoFuncByShortName(spkg, fname); fn != nil && resIdx < fn.Signature.Results().Len() {
		if fc := u.V.contractFor(fn); fc != nil && fc.Function {
			var args []Value
			for i := range c.Args {
				args = append(args, arg(i))
			}
			st := env.s
			if env.useOld {
				st = &State{Heaps: env.heaps(), Entry: &snapshot{Heaps: env.heaps(), Alloc: env.s.Entry.Alloc}, Alloc: env.s.Alloc}
			}
			if ft := u.functionApp(st, fn, args, resIdx); ft != nil {
				return Value{T: ft, Ty: fn.Signature.Results().At(resIdx).Type()}
			}
		}
	}
	// spec function?
	if env.cf != nil {
		if sf, dcf := u.V.specFuncIn(env.cf, name); sf != nil {
			var args []Value
			for i := range c.Args {
				args = append(args, arg(i))
			}
			denv := *env
			denv.cf = dcf
			denv.pkg = nil
			if sp, ok := u.V.SSAPkgs[dcf.PkgPath]; ok {
				denv.pkg = sp.Pkg
			}
			u.defineSpecFunc(&denv, sf)
			return u.applySpecFunc(env, sf, args)
		}
	}
	// constructor-like conversions T(x) between identical underlying types
	if len(c.Args) == 1 {
		if ty := u.tryResolveType(env, c.Fun.exprString()); ty != nil {
			a := arg(0)
			a.Ty = ty
			return a
		}
	}
	u.specErr("unknown function %q in contract", c.Fun.exprString())
	return Value{}
}

// isPkgTypeMethod: the callee has the shape pkg.Type.Method with pkg not a variable in scope
func isPkgTypeMethod(env *SpecEnv, fe *EField) bool {
	inner, ok := fe.X.(*EField)
	if !ok {
		return false
	}
	id, ok := inner.X.(*EIdent)
	if !ok {
		return false
	}
	_, isVar := env.lookup(id.Name)
	return !isVar
}

func (u *Unit) tryResolveType(env *SpecEnv, txt string) (t types.Type) {
	defer func() {
		if r := recover(); r != nil {
			t = nil
		}
	}()
	return u.resolveType(env, txt)
}

func (u *Unit) fIsNaN(t *Term) *Term {
	switch u.W.FM {
	case FloatIEEE:
		return App("fp.isNaN", "Bool", t)
	case FloatAbstract:
		u.W.needAbstractOps()
		return App("fisnan", "Bool", t)
	}
	p52 := Leaf("4503599627370496", "Int")
	return And(App("=", "Bool", App("mod", "Int", App("div", "Int", t, p52), Leaf("2048", "Int")), Leaf("2047", "Int")),
		Not(App("=", "Bool", App("mod", "Int", t, p52), Leaf("0", "Int"))))
}

// applySpecFunc: spec functions are SMT define-fun(-rec) with the heaps they read as extra parameters.
func (u *Unit) applySpecFunc(env *SpecEnv, sf *SpecFunc, args []Value) Value {
	def := u.defineSpecFunc(env, sf)
	if len(args) != len(sf.Params) {
		u.specErr("spec function %s: %d arguments, want %d", sf.Name, len(args), len(sf.Params))
	}
	if def.provisional {
		// first pass over a recursive body: only the heap keys matter
		return Value{T: Leaf("rec!dummy", def.resSort), Ty: def.resType}
	}
	var ts []*Term
	for i, a := range args {
		t := a.T
		if t == nil {
			u.specErr("spec function %s: argument %d has no term", sf.Name, i)
		}
		if i < len(def.paramTypes) && !compatibleArg(a.Ty, def.paramTypes[i]) {
			u.specErr("spec function %s: argument %d has type %s, parameter is %s (heaps are keyed by element type)", sf.Name, i+1, a.Ty, def.paramTypes[i])
		}
		ts = append(ts, t)
	}
	for _, hk := range def.heapKeys {
		ts = append(ts, env.heapFor(hk[:1], def.heapElem[hk]))
	}
	if len(ts) == 0 {
		return Value{T: Leaf(def.smtName, def.resSort), Ty: def.resType}
	}
	return Value{T: App(def.smtName, def.resSort, ts...), Ty: def.resType}
}

type specDef struct {
	smtName     string
	resSort     string
	resType     types.Type
	heapKeys    []string
	heapElem    map[string]types.Type
	provisional bool
	paramTypes  []types.Type
}

// compatibleArg: identical types, or slices with identical element types (LineString vs MultiPoint),
// or untyped constants meeting basic types.
func compatibleArg(a, p types.Type) bool {
	if a == nil || p == nil || types.Identical(a, p) {
		return true
	}
	as, ok1 := a.Underlying().(*types.Slice)
	ps, ok2 := p.Underlying().(*types.Slice)
	if ok1 && ok2 {
		return types.Identical(as.Elem(), ps.Elem())
	}
	if _, ok := a.Underlying().(*types.Basic); ok {
		if _, ok := p.Underlying().(*types.Basic); ok {
			return true
		}
	}
	if isUntypedNil(a) {
		return true
	}
	return types.Identical(a.Underlying(), p.Underlying()) && !ok1
}

func (u *Unit) defineSpecFunc(env *SpecEnv, sf *SpecFunc) *specDef {
	if d, ok := u.specDefs[sf.Name]; ok {
		return d
	}
	w := u.W
	d := &specDef{smtName: "spec_" + sf.Name, heapElem: map[string]types.Type{}}
	d.resType = u.resolveType(env, sf.Result)
	d.resSort = w.SortOf(d.resType)
	eval := func() (*Term, *State, []string) {
		ph := &State{Heaps: map[string]*Term{}, Globals: env.s.Globals, Alloc: Leaf("alloc0", "Int"), ParamHeaps: true}
		ph.Entry = &snapshot{Heaps: ph.Heaps, Alloc: ph.Alloc}
		sub := &SpecEnv{u: u, s: ph, names: map[string]Value{}, bound: map[string]Value{}, cf: env.cf, pkg: env.pkg}
		var params []string
		for _, p := range sf.Params {
			ty := types.Type(intType)
			if p.Type != "" {
				ty = u.resolveType(env, p.Type)
			}
			pv := Leaf("a_"+p.Name, w.SortOf(ty))
			sub.names[p.Name] = Value{T: pv, Ty: ty}
			params = append(params, fmt.Sprintf("(%s %s)", pv.Op, pv.Sort))
			if len(d.paramTypes) < len(sf.Params) {
				d.paramTypes = append(d.paramTypes, ty)
			}
		}
		body := u.evalSpec(sub, sf.Body)
		if body.T == nil || body.T.Sort != d.resSort {
			u.specErr("spec function %s: body has sort %v, declared %s", sf.Name, body.T, d.resSort)
		}
		return body.T, ph, params
	}
	if sf.Rec {
		d.provisional = true
		u.specDefs[sf.Name] = d
		_, ph, _ := eval()
		for k := range ph.Heaps {
			d.heapKeys = append(d.heapKeys, k)
			d.heapElem[k] = u.heapElemTypes[k]
		}
		sortStrings(d.heapKeys)
		d.provisional = false
	} else {
		// guard against accidental recursion through other spec functions
		u.specDefs[sf.Name] = &specDef{smtName: d.smtName, resSort: d.resSort, resType: d.resType, provisional: true}
	}
	body, ph, params := eval()
	if !sf.Rec {
		for k := range ph.Heaps {
			d.heapKeys = append(d.heapKeys, k)
			d.heapElem[k] = u.heapElemTypes[k]
		}
		sortStrings(d.heapKeys)
	}
	for _, k := range d.heapKeys {
		h, ok := ph.Heaps[k]
		if !ok {
			h = Leaf("h_"+sanitize(k), u.heapSort(k, w.SortOf(d.heapElem[k])))
		}
		params = append(params, fmt.Sprintf("(%s %s)", h.Op, h.Sort))
	}
	kw := "define-fun"
	if sf.Rec {
		kw = "define-fun-rec"
	}
	if u.opaqueSpec(sf.Name) {
		// `opt opaque=f,g`: this unit sees only the signature (sound: strictly less information);
		// keeps large quantified definitions out of units that merely pass the predicate along
		var sorts []string
		for _, p := range params {
			p = strings.TrimSuffix(strings.TrimPrefix(p, "("), ")")
			if i := strings.Index(p, " "); i >= 0 {
				sorts = append(sorts, p[i+1:])
			}
		}
		u.W.Declare(d.smtName, fmt.Sprintf("(declare-fun %s (%s) %s)", d.smtName, strings.Join(sorts, " "), d.resSort))
		u.specDefs[sf.Name] = d
		return d
	}
	u.W.Declare(d.smtName, fmt.Sprintf("(%s %s (%s) %s %s)", kw, d.smtName, strings.Join(params, " "), d.resSort, body.String()))
	u.specDefs[sf.Name] = d
	if sf.FoldSlice != "" && !u.NoFoldAxioms {
		if ax := u.foldAxiom(sf, d, params); ax != "" {
			u.W.Declare(d.smtName+"!fold", ax)
			if u.FoldsUsed == nil {
				u.FoldsUsed = map[string]*ContractFile{}
			}
			u.FoldsUsed[sf.Name] = env.cf
			u.Assumed["fold lemma fold:"+sf.Name+" (extensionality of the recursive spec function over its slice prefix; proved by induction as its own obligation)"] = true
		}
	}
	return d
}

// foldParts splits the SMT parameter list "(name sort)" of a fold spec function into the slice
// parameter, the count parameter, the heap of the slice's elements and everything else.
type foldParts struct {
	names, sorts []string
	iSlice, iN   int
	iHeap        int
}

func (u *Unit) foldPartsOf(sf *SpecFunc, d *specDef, params []string) *foldParts {
	fp := &foldParts{iSlice: -1, iN: -1, iHeap: -1}
	for _, p := range params {
		p = strings.TrimSuffix(strings.TrimPrefix(p, "("), ")")
		i := strings.Index(p, " ")
		fp.names = append(fp.names, p[:i])
		fp.sorts = append(fp.sorts, p[i+1:])
	}
	for i, p := range sf.Params {
		if p.Name == sf.FoldSlice {
			fp.iSlice = i
		}
		if p.Name == sf.FoldN {
			fp.iN = i
		}
	}
	if fp.iSlice < 0 || fp.iN < 0 || fp.iSlice >= len(d.paramTypes) {
		return nil
	}
	sl, ok := d.paramTypes[fp.iSlice].Underlying().(*types.Slice)
	if !ok {
		return nil
	}
	hk := "S:" + TypeKey(sl.Elem())
	for i, k := range d.heapKeys {
		if k == hk {
			fp.iHeap = len(sf.Params) + i
		}
	}
	if fp.iHeap < 0 {
		return nil
	}
	return fp
}

// foldAxiom: if two slices agree on their first n elements (each in its own heap) the fold over
// them agrees. Instantiated on pairs of applications of the function.
func (u *Unit) foldAxiom(sf *SpecFunc, d *specDef, params []string) string {
	fp := u.foldPartsOf(sf, d, params)
	if fp == nil {
		u.specErr("specfold %s: %s must be a slice parameter whose elements the function reads, %s an int parameter", sf.Name, sf.FoldSlice, sf.FoldN)
	}
	u.W.At(Leaf("o!x", "Int"), Leaf("i!x", "Int")) // make sure `at` is declared before the axiom text
	var binders []string
	a := make([]string, len(fp.names))
	b := make([]string, len(fp.names))
	for i, n := range fp.names {
		a[i] = n
		b[i] = n
		binders = append(binders, fmt.Sprintf("(%s %s)", n, fp.sorts[i]))
		if i == fp.iSlice || i == fp.iHeap {
			b[i] = n + "!2"
			binders = append(binders, fmt.Sprintf("(%s %s)", b[i], fp.sorts[i]))
		}
	}
	app1 := fmt.Sprintf("(%s %s)", d.smtName, strings.Join(a, " "))
	app2 := fmt.Sprintf("(%s %s)", d.smtName, strings.Join(b, " "))
	hyp := fmt.Sprintf("(forall ((k!f Int)) (=> (and (<= 0 k!f) (< k!f %s)) (= (select (select %s (s_ref %s)) (at (s_off %s) k!f)) (select (select %s (s_ref %s)) (at (s_off %s) k!f)))))",
		a[fp.iN], a[fp.iHeap], a[fp.iSlice], a[fp.iSlice], b[fp.iHeap], b[fp.iSlice], b[fp.iSlice])
	return fmt.Sprintf("(assert (forall (%s) (! (=> %s (= %s %s)) :pattern (%s %s))))", strings.Join(binders, " "), hyp, app1, app2, app1, app2)
}

func (u *Unit) opaqueSpec(name string) bool {
	if u.C == nil || u.C.Opts == nil {
		return false
	}
	for _, n := range strings.Split(u.C.Opts["opaque"], ",") {
		if strings.TrimSpace(n) == name {
			return true
		}
	}
	return false
}

func (u *Unit) specBV(env *SpecEnv, op string, a, b Value) Value {
	// width from the terms; signedness from the operand that is not a coerced literal
	bits := bvWidth(a.T.Sort)
	signed := false
	typed := func(v Value) (bool, bool) {
		if _, _, isLit := bvLitVal(v.T); isLit {
			return false, false
		}
		if bt, ok := v.Ty.Underlying().(*types.Basic); ok && bt.Info()&types.IsInteger != 0 {
			_, sg := intBits(bt)
			return true, sg
		}
		return false, false
	}
	if ok, sg := typed(a); ok {
		signed = sg
	} else if ok, sg := typed(b); ok && op != "<<" && op != ">>" {
		signed = sg
	}
	bs := bvSort(bits)
	pick := func(sop, uop string) string {
		if signed {
			return sop
		}
		return uop
	}
	at, bt := a.T, b.T
	if op == "<<" || op == ">>" {
		cbits := bvWidth(bt.Sort)
		if cbits < bits {
			bt = App(fmt.Sprintf("(_ zero_extend %d)", bits-cbits), bs, bt)
		} else if cbits > bits {
			low := App(fmt.Sprintf("(_ extract %d 0)", bits-1), bs, bt)
			bt = Ite(App("bvuge", "Bool", b.T, bvLit(big.NewInt(int64(bits)), cbits)), bvLit(big.NewInt(int64(bits)), bits), low)
		}
	} else if bvWidth(bt.Sort) != bits {
		u.specErr("bit-vector operands of different width for %s (%s vs %s)", op, at.Sort, bt.Sort)
	}
	var t *Term
	switch op {
	case "+":
		t = App("bvadd", bs, at, bt)
	case "-":
		t = App("bvsub", bs, at, bt)
	case "*":
		t = App("bvmul", bs, at, bt)
	case "/":
		t = App(pick("bvsdiv", "bvudiv"), bs, at, bt)
	case "%":
		t = App(pick("bvsrem", "bvurem"), bs, at, bt)
	case "&":
		t = App("bvand", bs, at, bt)
	case "|":
		t = App("bvor", bs, at, bt)
	case "^":
		t = App("bvxor", bs, at, bt)
	case "&^":
		t = App("bvand", bs, at, App("bvnot", bs, bt))
	case "<<":
		t = App("bvshl", bs, at, bt)
	case ">>":
		t = App(pick("bvashr", "bvlshr"), bs, at, bt)
	case "<":
		t = App(pick("bvslt", "bvult"), "Bool", at, bt)
	case "<=":
		t = App(pick("bvsle", "bvule"), "Bool", at, bt)
	case ">":
		t = App(pick("bvsgt", "bvugt"), "Bool", at, bt)
	case ">=":
		t = App(pick("bvsge", "bvuge"), "Bool", at, bt)
	default:
		u.specErr("bit-vector operator %s", op)
	}
	ty := a.Ty
	if _, _, isLit := bvLitVal(a.T); isLit && op != "<<" && op != ">>" {
		ty = b.Ty
	} else if isLit && (op == "<<" || op == ">>") {
		// 1 << z takes the type of whatever it is later compared with; keep an unsigned type of that width
		switch bits {
		case 32:
			ty = types.Typ[types.Uint32]
		case 64:
			ty = types.Typ[types.Uint64]
		}
	}
	if t.Sort == "Bool" {
		ty = boolType
	}
	return Value{T: t, Ty: ty}
}

func isUntyped(t types.Type) bool {
	b, ok := t.(*types.Basic)
	return ok && b.Info()&types.IsUntyped != 0
}

package govc

import (
	"bufio"
	"encoding/json"
	"fmt"
	"os"
	"path/filepath"
	"regexp"
	"sort"
	"strconv"
	"strings"
	"sync"
	"time"

	"golang.org/x/tools/go/ssa"
)

// ---------- property spec files ----------

type PropFunc struct {
	Key    string
	Term   bool
	Safety bool
	NoCand bool
	Tier   string // "" = both, "thorough" = thorough only
}

type ClauseRow struct {
	Name   string `json:"clause"`
	Status string `json:"status"`
	Text   string `json:"text"`
}

type PropSpec struct {
	ID          string
	Funcs       []PropFunc
	Sweeps      []string // regexps over function keys: safety-only, zero-annotation
	SweepTerm   bool
	SweepSafety bool // sweeps drop ensures/invariants (functional contracts are proved under another property)
	Lemmas      []string
	Ifaces      []string
	Clauses     []ClauseRow
	Assumes     []string
	Bounded     []string
}

func expandKey(k string) string {
	if strings.HasPrefix(k, "orb.") || strings.HasPrefix(k, "orb/") {
		return RepoModule + k[3:]
	}
	return k
}

func LoadPropSpec(path string) (*PropSpec, error) {
	f, err := os.Open(path)
	if err != nil {
		return nil, err
	}
	defer f.Close()
	ps := &PropSpec{}
	sc := bufio.NewScanner(f)
	sc.Buffer(make([]byte, 1<<20), 1<<20)
	for sc.Scan() {
		ln := strings.TrimSpace(sc.Text())
		if ln == "" || strings.HasPrefix(ln, "#") {
			continue
		}
		kw, rest := ln, ""
		if i := strings.IndexAny(ln, " \t"); i >= 0 {
			kw, rest = ln[:i], strings.TrimSpace(ln[i+1:])
		}
		switch kw {
		case "property":
			ps.ID = rest
		case "func":
			fs := strings.Fields(rest)
			pf := PropFunc{Key: expandKey(fs[0])}
			for _, o := range fs[1:] {
				switch o {
				case "term":
					pf.Term = true
				case "safety":
					pf.Safety = true
				case "nocand":
					pf.NoCand = true
				case "thorough":
					pf.Tier = "thorough"
				}
			}
			ps.Funcs = append(ps.Funcs, pf)
		case "sweep":
			ps.Sweeps = append(ps.Sweeps, rest)
		case "sweepterm":
			ps.SweepTerm = true
		case "sweepsafety":
			ps.SweepSafety = true
		case "lemma":
			ps.Lemmas = append(ps.Lemmas, rest)
		case "iface":
			ps.Ifaces = append(ps.Ifaces, expandKey(rest))
		case "clause":
			fs := strings.SplitN(rest, " ", 3)
			row := ClauseRow{Name: fs[0]}
			if len(fs) > 1 {
				row.Status = fs[1]
			}
			if len(fs) > 2 {
				row.Text = strings.Trim(fs[2], "\"")
			}
			ps.Clauses = append(ps.Clauses, row)
		case "assume":
			ps.Assumes = append(ps.Assumes, strings.Trim(rest, "\""))
		case "bounded":
			ps.Bounded = append(ps.Bounded, strings.Trim(rest, "\""))
		default:
			return nil, fmt.Errorf("%s: unknown keyword %q", path, kw)
		}
	}
	return ps, nil
}

// ---------- known findings ----------

type Finding struct {
	Props      []string
	Unit       string
	Obligation string
	Except     string
	Text       string
}

func LoadFindings(path string) ([]Finding, []string, error) {
	data, err := os.ReadFile(path)
	if err != nil {
		if os.IsNotExist(err) {
			return nil, nil, nil
		}
		return nil, nil, err
	}
	var out []Finding
	var fixed []string
	re := regexp.MustCompile(`(\w+)=("([^"]*)"|\S+)`)
	for _, ln := range strings.Split(string(data), "\n") {
		ln = strings.TrimSpace(ln)
		if strings.HasPrefix(ln, "fixed:") {
			fixed = append(fixed, ln)
			continue
		}
		if !strings.HasPrefix(ln, "finding:") {
			continue
		}
		body := strings.TrimPrefix(ln, "finding:")
		text := ""
		if i := strings.Index(body, " -- "); i >= 0 {
			text = strings.TrimSpace(body[i+4:])
			body = body[:i]
		}
		f := Finding{Text: text}
		for _, m := range re.FindAllStringSubmatch(body, -1) {
			val := m[2]
			if m[3] != "" || strings.HasPrefix(val, "\"") {
				val = m[3]
			}
			switch m[1] {
			case "property":
				f.Props = strings.Split(val, ",")
			case "unit":
				f.Unit = expandKey(val)
			case "obligation":
				f.Obligation = val
			case "except":
				f.Except = val
			}
		}
		out = append(out, f)
	}
	return out, fixed, nil
}

// ---------- running a property ----------

type oblRecord struct {
	Name    string  `json:"name"`
	Kind    string  `json:"kind"`
	Unit    string  `json:"unit"`
	Result  string  `json:"result"`
	Backend string  `json:"backend"`
	Seconds float64 `json:"seconds"`
	Queries int     `json:"queries"`
	Desc    string  `json:"desc,omitempty"`
	Pos     string  `json:"pos,omitempty"`
	Known   string  `json:"known_finding,omitempty"`
}

type violation struct {
	Obl    *Obligation
	Unit   *UnitResult
	Replay string
	Found  bool
}

func RunProperty(args []string) int {
	if len(args) < 1 {
		fmt.Fprintln(os.Stderr, "usage: govc prop <ID> [quick|thorough]")
		return 2
	}
	id := args[0]
	tier := "quick"
	if len(args) > 1 {
		tier = args[1]
	}
	if t := os.Getenv("VERIF_TIER"); t == "quick" || t == "thorough" {
		tier = t
	}
	seed := 0
	if s := os.Getenv("VERIF_SEED"); s != "" {
		seed, _ = strconv.Atoi(s)
	}
	verifDir := os.Getenv("VERIF_DIR")
	if verifDir == "" {
		verifDir = "/verif"
	}
	repoDir := os.Getenv("VERIF_REPO")
	if repoDir == "" {
		repoDir = "/repo"
	}
	start := time.Now()
	ps, err := LoadPropSpec(filepath.Join(verifDir, "spec", id+".spec"))
	if err != nil {
		fmt.Fprintln(os.Stderr, "BROKEN:", err)
		return 2
	}
	findings, _, err := LoadFindings(filepath.Join(verifDir, "known_findings.txt"))
	if err != nil {
		fmt.Fprintln(os.Stderr, "BROKEN:", err)
		return 2
	}
	v, err := Load(repoDir, "./...")
	if err != nil {
		// the tree does not build: that is not a property verdict
		fmt.Fprintln(os.Stderr, "BROKEN: cannot load /repo:", err)
		return 2
	}
	scratch, err := os.MkdirTemp("", "govc-"+id+"-")
	if err != nil {
		fmt.Fprintln(os.Stderr, "BROKEN:", err)
		return 2
	}
	defer os.RemoveAll(scratch)
	qTimeout := 60 * time.Second
	if tier == "thorough" {
		qTimeout = 300 * time.Second
	}
	so := &SolveOpts{Dir: scratch, Timeout: qTimeout, FirstTry: 2 * time.Second, Workers: 4, WantModel: true}

	// work list
	type work struct {
		fn   *ssa.Function
		opts UnitOpts
		key  string
	}
	var works []work
	var missing []string
	seen := map[string]bool{}
	for _, pf := range ps.Funcs {
		if pf.Tier == "thorough" && tier != "thorough" {
			continue
		}
		fn := v.FuncByKey(pf.Key)
		if fn == nil {
			missing = append(missing, pf.Key)
			continue
		}
		seen[pf.Key] = true
		works = append(works, work{fn, UnitOpts{WantTerm: pf.Term, UseCands: !pf.NoCand, SafetyOnly: pf.Safety}, pf.Key})
	}
	for _, pat := range ps.Sweeps {
		re, err := regexp.Compile(pat)
		if err != nil {
			fmt.Fprintln(os.Stderr, "BROKEN: bad sweep pattern:", err)
			return 2
		}
		var keys []string
		for k := range v.AllFuncKeys() {
			if re.MatchString(shortKey(k)) && !seen[k] {
				keys = append(keys, k)
			}
		}
		sort.Strings(keys)
		for _, k := range keys {
			seen[k] = true
			works = append(works, work{v.FuncByKey(k), UnitOpts{WantTerm: ps.SweepTerm, UseCands: true, SafetyOnly: ps.SweepSafety}, k})
		}
	}
	v.VerifiedSeparately = map[string]bool{}
	for _, w := range works {
		if c := v.contractFor(w.fn); c == nil || len(c.Requires) == 0 {
			v.VerifiedSeparately[w.key] = true
		}
	}
	type job func() *UnitResult
	var jobs []job
	var jobKeys []string
	for _, w := range works {
		w := w
		jobs = append(jobs, func() *UnitResult { return v.VerifyFunc(w.fn, w.opts, so) })
		jobKeys = append(jobKeys, w.key)
	}
	for _, ln := range ps.Lemmas {
		ln := ln
		jobs = append(jobs, func() *UnitResult { return v.ProveLemma(ln, so) })
		jobKeys = append(jobKeys, "lemma:"+ln)
	}
	for _, ik := range ps.Ifaces {
		ik := ik
		jobs = append(jobs, func() *UnitResult { return v.VerifyIfaceContract(ik, so) })
		jobKeys = append(jobKeys, "iface:"+ik)
	}
	results := make([]*UnitResult, len(jobs))
	var wg sync.WaitGroup
	sem := make(chan struct{}, 8)
	for i, j := range jobs {
		i, j := i, j
		wg.Add(1)
		sem <- struct{}{}
		go func() {
			defer wg.Done()
			defer func() { <-sem }()
			defer func() {
				if r := recover(); r != nil {
					results[i] = &UnitResult{Key: jobKeys[i], Refused: fmt.Sprintf("generator panic: %v", r), Unit: &Unit{W: NewWorld(FloatIEEE), Assumed: map[string]bool{}, Inlined: map[string]bool{}, Uncontracted: map[string]bool{}, UsedContracts: map[string]bool{}},
						Obligations: []*Obligation{{Name: shortKey(jobKeys[i]) + "#subset", Kind: "subset", Func: jobKeys[i], Desc: fmt.Sprintf("generator panic: %v", r), Queries: []*Query{{Goal: False, Result: "unknown", Backend: "generator"}}}}}
				}
			}()
			results[i] = j()
		}()
	}
	wg.Wait()
	var lemmaRes []*UnitResult
	// fold axioms relied on by any unit are proved here, once each
	type foldUse struct {
		name string
		cf   *ContractFile
		fm   FloatMode
	}
	folds := map[string]foldUse{}
	for _, r := range results {
		if r != nil && r.Unit != nil && r.Unit.W != nil {
			for k, cf := range r.Unit.FoldsUsed {
				folds[fmt.Sprintf("%s@%d", k, int(r.Unit.W.FM))] = foldUse{k, cf, r.Unit.W.FM}
			}
		}
	}
	var foldNames []string
	for k := range folds {
		foldNames = append(foldNames, k)
	}
	sort.Strings(foldNames)
	for _, k := range foldNames {
		lemmaRes = append(lemmaRes, v.ProveFoldLemma(folds[k].name, folds[k].cf, folds[k].fm, so))
	}

	// collect
	var records []oblRecord
	var viols []*violation
	nObl, nDis := 0, 0
	byBackend := map[string]int{}
	solverS := 0.0
	trusted := map[string]bool{}
	var funcs, inlined, uncontracted []string
	vacOK, vacBad, vacUnk, callProbesOK := 0, 0, 0, 0
	usedContracts, safetyOnly, fullMode := map[string]bool{}, map[string]bool{}, map[string]bool{}
	var samples []map[string]interface{}
	var knownSeen []string
	printedFinding := map[string]bool{}
	exitBroken := false
	all := append(append([]*UnitResult(nil), results...), lemmaRes...)
	for _, r := range all {
		if r == nil {
			continue
		}
		if r.Unit != nil {
			if r.Unit.C != nil || r.Unit.Fn == nil {
				funcs = append(funcs, shortKey(r.Key))
			} else {
				funcs = append(funcs, shortKey(r.Key)+" (safety only, no contract)")
			}
			for k := range r.Unit.Assumed {
				trusted[k] = true
			}
			for k := range r.Unit.UsedContracts {
				usedContracts[shortKey(k)] = true
			}
			if r.Unit.Fn != nil && r.Unit.C != nil && r.Refused == "" {
				if r.Unit.SafetyOnly {
					safetyOnly[shortKey(r.Key)] = true
				} else {
					fullMode[shortKey(r.Key)] = true
				}
			}
			for k := range r.Unit.Inlined {
				inlined = append(inlined, shortKey(k))
			}
			for k := range r.Unit.Uncontracted {
				uncontracted = append(uncontracted, shortKey(k))
			}
		}
		vacOK += r.CanaryOK
		vacBad += r.CanaryBad
		vacUnk += r.CanaryUnknown
		if r.CanaryBad > 0 && r.CanaryOK == 0 && r.CanaryUnknown == 0 {
			// every return path infeasible: contradictory requires/invariants
			fmt.Printf("VACUOUS: %s has no satisfiable return path (contradictory contract?)\n", shortKey(r.Key))
			exitBroken = true
		}
		for _, k := range r.CallVacuous {
			fmt.Printf("VACUOUS: call %s: the callee's contract contradicts the caller's state (path feasible before the call, infeasible after)\n", k)
			exitBroken = true
		}
		callProbesOK += r.CallProbesOK
		// known findings for this unit
		var unitFindings []Finding
		for _, f := range findings {
			if f.Unit == r.Key && containsStr(f.Props, id) {
				unitFindings = append(unitFindings, f)
			}
		}
		var failing []*Obligation
		for _, o := range r.Obligations {
			nObl++
			rec := oblRecord{Name: o.Name, Kind: o.Kind, Unit: shortKey(r.Key), Result: o.Status(), Queries: len(o.Queries), Desc: o.Desc}
			if o.Pos.IsValid() {
				rec.Pos = fmt.Sprintf("%s:%d", shortFile(o.Pos.Filename), o.Pos.Line)
			}
			for _, q := range o.Queries {
				rec.Seconds += q.Seconds
				solverS += q.Seconds
				if q.Backend != "" {
					rec.Backend = q.Backend
				}
			}
			if rec.Backend != "" {
				byBackend[rec.Backend]++
			}
			if o.Discharged() {
				nDis++
				if len(samples) < 4 && o.Kind != "nil" && len(o.Queries) > 0 && !o.Queries[0].Trivial {
					samples = append(samples, map[string]interface{}{"name": o.Name, "kind": o.Kind, "contract": o.Desc, "result": "unsat", "backend": rec.Backend,
						"seconds": rec.Seconds, "smt_tail": tail(o.Queries[0].SMT(""), 600)})
				}
			} else {
				failing = append(failing, o)
			}
			records = append(records, rec)
		}
		if len(failing) == 0 {
			continue
		}
		// failing obligations: known findings are decided by re-proving the obligation outside
		// the recorded input class
		excused := map[string]string{}
		if len(unitFindings) > 0 && r.Unit != nil && r.Unit.Fn != nil {
			var ex []string
			for _, f := range unitFindings {
				ex = append(ex, "!("+f.Except+")")
			}
			opts := UnitOpts{WantTerm: r.Unit.WantTerm, UseCands: r.Unit.UseCands, ExtraRequires: ex}
			r2 := v.VerifyFunc(r.Unit.Fn, opts, so)
			ok2 := map[string]bool{}
			for _, o := range r2.Obligations {
				if o.Discharged() {
					ok2[o.Name] = true
				}
			}
			for _, o := range failing {
				for _, f := range unitFindings {
					if matchObl(f.Obligation, o.Name) && ok2[o.Name] && r2.CanaryOK+r2.CanaryUnknown > 0 {
						excused[o.Name] = f.Text
					}
				}
			}
		}
		for _, o := range failing {
			if txt, ok := excused[o.Name]; ok {
				if !printedFinding[txt] {
					printedFinding[txt] = true
					fmt.Printf("KNOWN-FINDING: property=%s %s [%s]\n", id, txt, o.Name)
				}
				knownSeen = append(knownSeen, o.Name+": "+txt)
				nDis++ // discharged outside the recorded input class
				for i := range records {
					if records[i].Name == o.Name && records[i].Unit == shortKey(r.Key) {
						records[i].Known = txt
					}
				}
				continue
			}
			viols = append(viols, &violation{Obl: o, Unit: r})
		}
	}
	sort.Strings(funcs)
	for _, m := range missing {
		// a function named by the spec no longer exists: stale contract, reported as undischarged
		nObl++
		o := &Obligation{Name: shortKey(m) + "#stale", Kind: "stale", Func: m, Desc: "STALE-CONTRACT: function not found in /repo", Queries: []*Query{{Goal: False, Result: "unknown", Backend: "generator"}}}
		viols = append(viols, &violation{Obl: o, Unit: &UnitResult{Key: m}})
		records = append(records, oblRecord{Name: o.Name, Kind: "stale", Unit: shortKey(m), Result: "unknown", Desc: o.Desc})
	}

	// replay + VIOLATION lines
	replayDir := filepath.Join(verifDir, "replays", id)
	os.RemoveAll(replayDir)
	for _, vi := range viols {
		os.MkdirAll(replayDir, 0o755)
		path := filepath.Join(replayDir, sanitize(vi.Obl.Name)+".json")
		found := writeReplay(v, path, id, vi, scratch, seed)
		if found {
			fmt.Printf("VIOLATION property=%s replay=%s\n", id, path)
		} else {
			fmt.Printf("VIOLATION property=%s replay=%s no-failing-input-found\n", id, path)
		}
		fmt.Printf("  obligation %s (%s): %s — %s\n", vi.Obl.Name, vi.Obl.Status(), vi.Obl.Desc, posOf(vi.Obl))
	}

	// evidence
	var tb []string
	tb = append(tb, "go/ssa (x/tools v0.29.0) NaiveForm translation of /repo's working tree", "govc VC generator (/verif/govc)",
		"SMT solvers z3 4.8.12, z3 5.1.0, cvc5 1.0.3", "amd64: int is 64 bits",
		"methods of interfaces implemented outside /repo (io.Reader, io.Writer, error, fmt.Stringer, user orb.Pointer values) and functions outside /repo without a stated contract write only memory reachable from their arguments")
	for k := range trusted {
		tb = append(tb, k)
	}
	sort.Strings(tb[5:])
	sort.Strings(inlined)
	sort.Strings(uncontracted)
	sort.Slice(records, func(i, j int) bool { return records[i].Name < records[j].Name })
	assumptions := append([]string(nil), ps.Assumes...)
	assumptions = append(assumptions, tb[4:]...)
	if len(samples) == 0 {
		for _, r := range records {
			if len(samples) < 3 {
				samples = append(samples, map[string]interface{}{"name": r.Name, "kind": r.Kind, "result": r.Result, "contract": r.Desc})
			}
		}
	}
	ev := map[string]interface{}{
		"property_id": id, "tier": tier, "seed": seed, "level": "proof",
		"wall_s": time.Since(start).Seconds(), "violations": len(viols),
		"assumptions": assumptions,
		"coverage": map[string]interface{}{
			"obligations": nObl, "discharged": nDis,
			"checker_cmd":                  fmt.Sprintf("/verif/run %s %s  (govc: go/ssa of /repo -> VCs -> z3|z3-new|cvc5 race, %ds/query)", id, tier, int(qTimeout.Seconds())),
			"trusted_base":                 tb,
			"functions_under_contract":     dedup(funcs),
			"inlined_callees":              dedup(inlined),
			"callee_contracts_used":        keysOf(usedContracts),
			"contracts_verified_in_full":   keysOf(fullMode),
			"contracts_checked_safety_only": keysOf(safetyOnly),
			"uncontracted_callees_havoced": dedup(uncontracted),
			"by_backend":                   byBackend,
			"solver_s":                     solverS,
			"samples":                      samples,
			"clauses":                      ps.Clauses,
			"bounded":                      ps.Bounded,
			"arithmetic":                   "int/int64: mathematical integers with an `ovf` obligation on every + - * (proved in range); other integer types: explicit wrap modulo 2^N; Go truncating / and %; floats per function: ieee (SMT FloatingPoint), bits (BV64 payload) or abstract (uninterpreted ops)",
			"dropped_by_translation":       []string{"defer/rundefers bookkeeping (no defer in scope; a function using defer/go/select/chan is refused as `subset`)", "calls outside /repo: assumed contracts / IEEE models listed in trusted_base", "function values: uninterpreted pure total functions", "GC, stack growth, scheduling"},
			"vacuity":                      map[string]int{"return_paths_sat": vacOK, "return_paths_unsat": vacBad, "return_paths_unknown": vacUnk, "call_sites_feasible_after_contract": callProbesOK},
			"known_findings_seen":          knownSeen,
			"obligation_list":              records,
		},
	}
	os.MkdirAll(filepath.Join(verifDir, "evidence"), 0o755)
	data, _ := json.MarshalIndent(ev, "", " ")
	if err := os.WriteFile(filepath.Join(verifDir, "evidence", id+".json"), data, 0o644); err != nil {
		fmt.Fprintln(os.Stderr, "BROKEN: cannot write evidence:", err)
		return 2
	}
	{
		type ut struct {
			k string
			s float64
			r int
		}
		var uts []ut
		for _, r := range all {
			if r != nil {
				uts = append(uts, ut{shortKey(r.Key), r.Seconds, r.Rounds})
			}
		}
		sort.Slice(uts, func(i, j int) bool { return uts[i].s > uts[j].s })
		var parts []string
		for i := 0; i < len(uts) && i < 5; i++ {
			parts = append(parts, fmt.Sprintf("%s %.0fs/%dr", uts[i].k, uts[i].s, uts[i].r))
		}
		fmt.Printf("slowest units: %s\n", strings.Join(parts, "; "))
	}
	fmt.Printf("%s %s: %d obligations, %d discharged, %d violations, %d known findings, %d functions, %.1fs\n", id, tier, nObl, nDis, len(viols), len(knownSeen), len(funcs), time.Since(start).Seconds())
	if nObl == 0 {
		fmt.Println("BROKEN: zero obligations generated")
		return 2
	}
	if len(viols) > 0 {
		return 1
	}
	if exitBroken {
		return 2
	}
	return 0
}

func posOf(o *Obligation) string {
	if o.Pos.IsValid() {
		return fmt.Sprintf("%s:%d", shortFile(o.Pos.Filename), o.Pos.Line)
	}
	return ""
}

func tail(s string, n int) string {
	if len(s) > n {
		return "..." + s[len(s)-n:]
	}
	return s
}

func containsStr(xs []string, x string) bool {
	for _, y := range xs {
		if y == x {
			return true
		}
	}
	return false
}

func dedup(xs []string) []string {
	sort.Strings(xs)
	var out []string
	for i, x := range xs {
		if i == 0 || x != xs[i-1] {
			out = append(out, x)
		}
	}
	if out == nil {
		out = []string{}
	}
	return out
}

// writeReplay writes the replay file for a failed obligation and tries to confirm it on the
// real code. Returns whether a failing input was found.
func writeReplay(v *Verifier, path, prop string, vi *violation, scratch string, seed int) bool {
	o := vi.Obl
	rep := map[string]interface{}{
		"property": prop, "obligation": o.Name, "kind": o.Kind, "function": vi.Unit.Key, "description": o.Desc,
		"position": posOf(o), "result": o.Status(),
	}
	var q *Query
	for _, qq := range o.Queries {
		if qq.Result == "sat" {
			q = qq
			break
		}
	}
	if q == nil {
		for _, qq := range o.Queries {
			if qq.Result != "unsat" && qq.Result != "trivial" {
				q = qq
				break
			}
		}
	}
	found := false
	if q != nil {
		rep["solver"] = q.Backend
		rep["solver_result"] = q.Result
		model := map[string]string{}
		for k, val := range q.Model {
			if strings.HasPrefix(k, "p_") || strings.HasPrefix(k, "lp_") || strings.HasPrefix(k, "r_") || k == "solver-output" {
				model[k] = val
			}
		}
		rep["model"] = model
		if vi.Unit.Unit != nil && vi.Unit.Unit.W != nil {
			smt := q.SMT(vi.Unit.Unit.W.Prelude())
			if len(smt) > 200000 {
				smt = smt[:200000] + "\n; (truncated)"
			}
			rep["smt"] = smt
		}
		if vi.Unit.Unit != nil && vi.Unit.Unit.Fn != nil {
			rr := replayOnRealCode(v, vi, q, scratch, seed)
			if rr != nil {
				rep["go_test"] = rr.Test
				rep["replay_cmd"] = rr.Cmd
				rep["observed"] = rr.Observed
				rep["verdict"] = rr.Verdict
				rep["input"] = rr.Input
				rep["go_test_source"] = rr.Source
				rep["hints"] = rr.Hints
				rep["pos"] = rr.Pos
				rep["kind_msg"] = rr.KindMsg
				rep["pkg_rel"] = rr.PkgRel
				found = rr.Verdict == "confirmed"
			}
		}
	}
	if !found {
		rep["verdict"] = "no-failing-input-found"
	}
	data, _ := json.MarshalIndent(rep, "", " ")
	os.WriteFile(path, data, 0o644)
	return found
}

func matchObl(pat, name string) bool {
	if strings.HasSuffix(pat, "*") {
		return strings.HasPrefix(name, strings.TrimSuffix(pat, "*"))
	}
	return pat == name
}

func keysOf(m map[string]bool) []string {
	out := []string{}
	for k := range m {
		out = append(out, k)
	}
	sort.Strings(out)
	return out
}

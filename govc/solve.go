package govc

import (
	"bytes"
	"context"
	"fmt"
	"os"
	"os/exec"
	"path/filepath"
	"strconv"
	"strings"
	"sync"
	"time"
)

type Solver struct {
	Name string
	Args func(file string, timeoutMs int) []string
}

var Solvers = []Solver{
	{"z3", func(f string, ms int) []string { return []string{"z3", fmt.Sprintf("-t:%d", ms), f} }},
	{"z3-new", func(f string, ms int) []string { return []string{"z3-new", fmt.Sprintf("-t:%d", ms), f} }},
	{"cvc5", func(f string, ms int) []string {
		return []string{"cvc5", fmt.Sprintf("--tlimit=%d", ms), "--lang=smt2", f}
	}},
}

type SolveOpts struct {
	Dir       string        // scratch directory (outside /repo and /verif)
	Timeout   time.Duration // per query, racing phase
	FirstTry  time.Duration // z3 alone first
	Workers   int
	WantModel bool
	BatchOnly bool // no racing, no individual retries
}

// solverSlots bounds the number of solver processes running at once (timeouts are wall-clock, so
// oversubscribing the cores turns provable obligations into timeouts).
var solverSlots = make(chan struct{}, 14)

func runSolver(ctx context.Context, sv Solver, file string, timeout time.Duration) (string, string) {
	select {
	case solverSlots <- struct{}{}:
		defer func() { <-solverSlots }()
	case <-ctx.Done():
		return "timeout", ""
	}
	args := sv.Args(file, int(timeout/time.Millisecond))
	cctx, cancel := context.WithTimeout(ctx, timeout+2*time.Second)
	defer cancel()
	cmd := exec.CommandContext(cctx, args[0], args[1:]...)
	var out bytes.Buffer
	cmd.Stdout = &out
	cmd.Stderr = &out
	_ = cmd.Run()
	text := out.String()
	first := strings.TrimSpace(strings.SplitN(text, "\n", 2)[0])
	switch first {
	case "sat", "unsat", "unknown":
		return first, text
	}
	if strings.Contains(text, "timeout") || cctx.Err() != nil {
		return "timeout", text
	}
	return "error", text
}

// solveQuery races the solvers on one query.
func solveQuery(q *Query, prelude string, opts *SolveOpts, id string) {
	if q.Trivial {
		q.Result = "trivial"
		q.Backend = "simplifier"
		return
	}
	file := filepath.Join(opts.Dir, id+".smt2")
	text := q.SMT(prelude)
	if opts.WantModel {
		text += "(get-model)\n"
	}
	if err := os.WriteFile(file, []byte(text), 0o644); err != nil {
		q.Result = "error"
		return
	}
	defer os.Remove(file)
	start := time.Now()
	defer func() { q.Seconds = time.Since(start).Seconds() }()
	// phase 1: z3 (fast start-up) alone with a short limit
	if opts.FirstTry > 0 {
		r, out := runSolver(context.Background(), Solvers[0], file, opts.FirstTry)
		if r == "unsat" || r == "sat" {
			q.Result, q.Backend = r, Solvers[0].Name
			if r == "sat" {
				q.Model = parseModel(out)
			}
			return
		}
	}
	// phase 2: race all
	ctx, cancel := context.WithCancel(context.Background())
	defer cancel()
	type res struct{ r, out, name string }
	ch := make(chan res, len(Solvers))
	for _, sv := range Solvers {
		sv := sv
		go func() {
			r, out := runSolver(ctx, sv, file, opts.Timeout)
			ch <- res{r, out, sv.Name}
		}()
	}
	best := res{r: "timeout"}
	for range Solvers {
		x := <-ch
		if x.r == "unsat" || x.r == "sat" {
			q.Result, q.Backend = x.r, x.name
			if x.r == "sat" {
				q.Model = parseModel(x.out)
			}
			cancel()
			return
		}
		if x.r == "unknown" || best.r == "" {
			best = x
		}
		if x.r == "error" && best.r == "timeout" {
			best = x
			q.Model = map[string]string{"solver-output": truncate(x.out, 400)}
		}
	}
	q.Result, q.Backend = best.r, best.name
	if opts.WantModel {
		candidateModel(q, prelude, opts, id)
	}
}

// candidateModel: an undischarged query with quantified hypotheses rarely comes back `sat`.
// Drop the quantified hypotheses (weaker hypotheses: any model is only a *candidate* input, to be
// confirmed by replay on the real code) and ask for a model.
func candidateModel(q *Query, prelude string, opts *SolveOpts, id string) {
	var sb strings.Builder
	for _, ln := range strings.Split(prelude, "\n") {
		if strings.HasPrefix(ln, "(declare-fun at (Int Int) Int)") {
			sb.WriteString("(define-fun at ((o Int) (i Int)) Int (+ o i))\n")
			continue
		}
		if strings.HasPrefix(ln, "(assert ") && (strings.Contains(ln, "(forall ") || strings.Contains(ln, "(exists ")) {
			continue
		}
		if strings.HasPrefix(ln, "(define-fun-rec ") {
			continue
		}
		sb.WriteString(ln)
		sb.WriteByte('\n')
	}
	for _, d := range q.Decls {
		sb.WriteString(d)
		sb.WriteByte('\n')
	}
	for _, p := range q.PC {
		ps := p.String()
		if strings.Contains(ps, "(forall ") || strings.Contains(ps, "(exists ") || strings.Contains(ps, "spec_") {
			continue
		}
		sb.WriteString("(assert " + ps + ")\n")
	}
	gs := q.Goal.String()
	if strings.Contains(gs, "spec_") {
		return
	}
	sb.WriteString("(assert (not " + gs + "))\n(check-sat)\n(get-model)\n")
	file := filepath.Join(opts.Dir, id+"_cand.smt2")
	if err := os.WriteFile(file, []byte(sb.String()), 0o644); err != nil {
		return
	}
	defer os.Remove(file)
	for _, sv := range []Solver{Solvers[1], Solvers[0]} {
		r, out := runSolver(context.Background(), sv, file, 8*time.Second)
		if r == "sat" {
			m := parseModel(out)
			m["candidate"] = "model of the query without its quantified hypotheses (" + sv.Name + ")"
			q.Model = m
			return
		}
	}
}

func truncate(s string, n int) string {
	if len(s) > n {
		return s[:n] + "..."
	}
	return s
}

// parseModel extracts (define-fun name () Sort value) entries.
func parseModel(out string) map[string]string {
	m := map[string]string{}
	i := strings.Index(out, "(define-fun ")
	for i >= 0 {
		rest := out[i+len("(define-fun "):]
		// name
		j := strings.IndexAny(rest, " \n")
		if j < 0 {
			break
		}
		name := rest[:j]
		// find matching close paren of this define-fun
		depth := 1
		k := 0
		for k = 0; k < len(rest) && depth > 0; k++ {
			if rest[k] == '(' {
				depth++
			} else if rest[k] == ')' {
				depth--
			}
		}
		body := strings.TrimSpace(rest[j:min(k-1, len(rest))])
		if strings.HasPrefix(body, "()") {
			// "() Sort value"
			b := strings.TrimSpace(body[2:])
			e := skipSort(b, 0)
			m[name] = strings.Join(strings.Fields(b[e:]), " ")
		}
		next := strings.Index(rest[k:], "(define-fun ")
		if next < 0 {
			break
		}
		i = i + len("(define-fun ") + k + next
	}
	return m
}

// solveBatch runs many queries in one z3 process with push/pop; anything not answered
// `unsat` is left for the individual (racing, model-producing) path.
func solveBatch(qs []*Query, prelude string, opts *SolveOpts, id string) {
	var sb strings.Builder
	sb.WriteString(prelude)
	for qi, q := range qs {
		fmt.Fprintf(&sb, "(echo \"QUERY-%d\")\n", qi)
		sb.WriteString("(push 1)\n")
		for _, d := range q.Decls {
			sb.WriteString(d)
			sb.WriteByte('\n')
		}
		for _, p := range q.PC {
			sb.WriteString("(assert ")
			sb.WriteString(p.String())
			sb.WriteString(")\n")
		}
		sb.WriteString("(assert (not ")
		sb.WriteString(q.Goal.String())
		sb.WriteString("))\n(check-sat)\n(pop 1)\n")
	}
	file := filepath.Join(opts.Dir, id+".smt2")
	if err := os.WriteFile(file, []byte(sb.String()), 0o644); err != nil {
		return
	}
	defer os.Remove(file)
	per := opts.FirstTry
	if per <= 0 {
		per = 2 * time.Second
	}
	solverSlots <- struct{}{}
	defer func() { <-solverSlots }()
	start := time.Now()
	ctx, cancel := context.WithTimeout(context.Background(), per*time.Duration(len(qs))+5*time.Second)
	defer cancel()
	cmd := exec.CommandContext(ctx, "z3", fmt.Sprintf("-t:%d", int(per/time.Millisecond)), file)
	var out bytes.Buffer
	cmd.Stdout = &out
	_ = cmd.Run()
	el := time.Since(start).Seconds()
	if os.Getenv("GOVC_KEEPBATCH") != "" {
		os.WriteFile("/tmp/batch_"+id+".smt2", []byte(sb.String()), 0o644)
		os.WriteFile("/tmp/batch_"+id+".out", out.Bytes(), 0o644)
	}
	// results are attributed by the QUERY-n marker printed before each query: an error or a
	// missing answer for one query can never shift the answers of the others
	cur := -1
	answered := map[int]bool{}
	for _, ln := range strings.Split(out.String(), "\n") {
		ln = strings.TrimSpace(ln)
		if strings.HasPrefix(ln, "QUERY-") || strings.HasPrefix(ln, "\"QUERY-") {
			n, err := strconv.Atoi(strings.Trim(strings.TrimPrefix(strings.Trim(ln, "\""), "QUERY-"), "\""))
			if err == nil {
				cur = n
			}
			continue
		}
		if cur < 0 || cur >= len(qs) || answered[cur] {
			continue
		}
		if strings.HasPrefix(ln, "(error") {
			answered[cur] = true // no verdict for this query
			continue
		}
		if ln == "sat" || ln == "unsat" || ln == "unknown" {
			answered[cur] = true
			if ln == "unsat" {
				qs[cur].Result = "unsat"
				qs[cur].Backend = "z3"
				qs[cur].Seconds = el / float64(len(qs))
			} else {
				qs[cur].batchVerdict = ln
			}
		}
	}
}

// SolveAll discharges all queries of the obligations in parallel.
func SolveAll(obls []*Obligation, prelude string, opts *SolveOpts) {
	type job struct {
		q  *Query
		id string
		o  *Obligation
	}
	// phase 0: batches through one z3 process each
	var pending []*Query
	for _, o := range obls {
		for _, q := range o.Queries {
			if q.Trivial {
				q.Result = "trivial"
				q.Backend = "simplifier"
				continue
			}
			if q.Result == "" {
				pending = append(pending, q)
			}
		}
	}
	if len(pending) > 3 || (opts.BatchOnly && len(pending) > 0) {
		nw := opts.Workers
		if nw <= 0 {
			nw = 8
		}
		size := (len(pending) + nw - 1) / nw
		if size > 40 {
			size = 40
		}
		if size < 4 {
			size = 4
		}
		if opts.BatchOnly {
			// candidate rounds: many small batches so that slow (quantified) queries do not serialise
			size = (len(pending) + 13) / 14
			if size > 6 {
				size = 6
			}
			if size < 2 {
				size = 2
			}
			nw = 14
		}
		var bwg sync.WaitGroup
		bsem := make(chan struct{}, nw)
		for i := 0; i < len(pending); i += size {
			j := i + size
			if j > len(pending) {
				j = len(pending)
			}
			chunk := pending[i:j]
			id := fmt.Sprintf("b%d_%d", i, time.Now().UnixNano()%1000000000)
			bwg.Add(1)
			bsem <- struct{}{}
			go func() {
				defer bwg.Done()
				defer func() { <-bsem }()
				solveBatch(chunk, prelude, opts, id)
			}()
		}
		bwg.Wait()
	}
	if opts.BatchOnly {
		// inferred-candidate rounds: what z3 answered sat/unknown is dropped; a query the batch never
		// reached (process killed on a slow neighbour) is retried on its own
		var retry []*Query
		for _, q := range pending {
			if q.Result == "" && q.batchVerdict == "" {
				retry = append(retry, q)
			} else if q.Result == "" {
				q.Result = "unknown"
			}
		}
		var rwg sync.WaitGroup
		for i, q := range retry {
			i, q := i, q
			rwg.Add(1)
			go func() {
				defer rwg.Done()
				file := filepath.Join(opts.Dir, fmt.Sprintf("r%d_%d.smt2", i, time.Now().UnixNano()%1000000000))
				os.WriteFile(file, []byte(q.SMT(prelude)), 0o644)
				defer os.Remove(file)
				r, _ := runSolver(context.Background(), Solvers[0], file, opts.FirstTry+time.Second)
				if r == "unsat" {
					q.Result, q.Backend = "unsat", "z3"
				} else {
					q.Result = "unknown"
				}
			}()
		}
		rwg.Wait()
		return
	}
	var jobs []job
	for oi, o := range obls {
		for qi, q := range o.Queries {
			if q.Result != "" {
				continue
			}
			jobs = append(jobs, job{q, fmt.Sprintf("o%d_q%d_%d", oi, qi, time.Now().UnixNano()%1000000000), o})
		}
	}
	ch := make(chan job)
	var wg sync.WaitGroup
	n := opts.Workers
	if n <= 0 {
		n = 8
	}
	for i := 0; i < n; i++ {
		wg.Add(1)
		go func() {
			defer wg.Done()
			for j := range ch {
				if j.o != nil && j.o.failedFlag() {
					// the obligation is already undischarged: do not spend solver time on its other paths
					j.q.Result = "skipped"
					continue
				}
				solveQuery(j.q, prelude, opts, j.id)
				if j.q.Result != "unsat" && j.q.Result != "trivial" && j.o != nil {
					j.o.setFailed()
				}
			}
		}()
	}
	for _, j := range jobs {
		ch <- j
	}
	close(ch)
	wg.Wait()
}

func (o *Obligation) failedFlag() bool {
	o.mu.Lock()
	defer o.mu.Unlock()
	return o.failed
}
func (o *Obligation) setFailed() {
	o.mu.Lock()
	o.failed = true
	o.mu.Unlock()
}

func (o *Obligation) Discharged() bool {
	for _, q := range o.Queries {
		if q.Result != "unsat" && q.Result != "trivial" {
			return false
		}
	}
	return true
}

func (o *Obligation) Status() string {
	worst := "unsat"
	for _, q := range o.Queries {
		switch q.Result {
		case "sat":
			return "sat"
		case "skipped":
			if worst == "unsat" {
				worst = "skipped"
			}
		case "unknown", "timeout", "error", "":
			worst = q.Result
			if worst == "" {
				worst = "unsolved"
			}
		}
	}
	return worst
}

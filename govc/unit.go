package govc

import (
	"path/filepath"
	"fmt"
	"go/types"
	"os"
	"sort"
	"strconv"
	"strings"
	"time"

	"golang.org/x/tools/go/ssa"
)

type UnitOpts struct {
	WantTerm      bool
	UseCands      bool
	MaxPaths      int
	FloatMode     *FloatMode
	SafetyOnly    bool     // ignore ensures (zero-annotation sweep still uses requires + loop invariants)
	ExtraRequires []string // additional preconditions (known-finding exclusions)
}

type UnitResult struct {
	Key           string
	Unit          *Unit
	Obligations   []*Obligation
	Refused       string
	Rounds        int
	CandsKept     int
	CandsDropped  int
	Seconds       float64
	CanaryOK      int
	CanaryBad     int // return paths whose path condition is unsatisfiable (vacuity)
	CanaryUnknown int
	CallVacuous   []string // call sites whose contract application makes a feasible path infeasible
	CallProbesOK  int
	DeadBlocks    []string // blocks reached only by paths whose quantifier-free path condition is already unsatisfiable
	BlocksReached int
}

func (v *Verifier) newUnit(fn *ssa.Function, opts UnitOpts) *Unit {
	c := v.contractFor(fn)
	fm := FloatIEEE
	if c != nil && c.FloatsSet {
		fm = c.Floats
	}
	if opts.FloatMode != nil {
		fm = *opts.FloatMode
	}
	u := &Unit{V: v, Fn: fn, C: c, W: NewWorld(fm), Obls: map[string]*Obligation{}, siteNames: map[string]string{}, kindCount: map[string]int{},
		MaxPaths: opts.MaxPaths, Inlined: map[string]bool{}, Assumed: map[string]bool{}, Uncontracted: map[string]bool{}, UsedContracts: map[string]bool{},
		closures: map[string]*closureVal{}, modsCache: map[*ssa.BasicBlock]*loopMods{}, activeCands: map[*ActiveLoop][]*candidate{},
		UseCands: opts.UseCands, WantTerm: opts.WantTerm, specDefs: map[string]*specDef{}, heapElemTypes: map[string]types.Type{},
		globalInit: map[*ssa.Global]*Term{}, siteOrd: map[ssa.Instruction]map[string]int{}}
	u.SafetyOnly = opts.SafetyOnly
	u.Pkg = fn.Pkg
	if u.Pkg == nil && fn.Parent() != nil {
		p := fn
		for p.Parent() != nil {
			p = p.Parent()
		}
		u.Pkg = p.Pkg
	}
	if c != nil && c.Opts != nil && c.Opts["mode"] == "bv" {
		u.W.IntBV = true
	}
	if u.MaxPaths == 0 {
		u.MaxPaths = 4096
	}
	if opts.SafetyOnly && c != nil {
		// the functional contract is verified elsewhere: keep requires, drop ensures, frames and
		// user loop invariants (inferred candidates carry the safety proof)
		cc := *c
		cc.Ensures = nil
		cc.Loops = nil
		cc.ModSet = false
		cc.Modifies = nil
		cc.Pure = false
		u.C = &cc
	}
	if len(opts.ExtraRequires) > 0 {
		cc := &Contract{Key: fnKey(fn)}
		if u.C != nil {
			x := *u.C
			cc = &x
			cc.Requires = append([]Clause(nil), u.C.Requires...)
		}
		for _, r := range opts.ExtraRequires {
			cl, err := parseClause(r)
			if err != nil {
				u.Refused = "known-findings exception does not parse: " + err.Error()
				continue
			}
			cc.Requires = append(cc.Requires, cl)
		}
		u.C = cc
	}
	return u
}

// VerifyFunc generates and discharges all obligations of one function (Houdini loop over
// inferred invariant candidates, then the real obligations).
func (v *Verifier) VerifyFunc(fn *ssa.Function, opts UnitOpts, so *SolveOpts) *UnitResult {
	start := time.Now()
	res := &UnitResult{Key: fnKey(fn)}
	if c := v.contractFor(fn); c != nil && c.Opts != nil && c.Opts["timeout"] != "" {
		// slow but stable obligations: a longer per-query limit for this function only
		if secs, err := strconv.Atoi(c.Opts["timeout"]); err == nil && time.Duration(secs)*time.Second > so.Timeout {
			cp := *so
			cp.Timeout = time.Duration(secs) * time.Second
			so = &cp
		}
	}
	var u *Unit
	disabled := map[string]bool{}
	for round := 1; round <= 8; round++ {
		res.Rounds = round
		u = v.newUnit(fn, opts)
		u.disabled = disabled
		u.run()
		if u.Refused != "" {
			break
		}
		if !opts.UseCands {
			break
		}
		// solve candidate obligations only
		var aux []*Obligation
		for _, o := range u.Obligations() {
			if o.Aux {
				aux = append(aux, o)
			}
		}
		if len(aux) == 0 {
			break
		}
		cso := *so
		cso.Timeout = 3 * time.Second
		cso.FirstTry = 1000 * time.Millisecond
		cso.BatchOnly = true
		cso.WantModel = false
		SolveAll(aux, u.W.Prelude(), &cso)
		dropped := 0
		for _, o := range aux {
			if os.Getenv("GOVC_DEBUG") != "" {
				fmt.Fprintf(os.Stderr, "round %d cand %s: %s (%d queries)\n", round, o.Name, o.Status(), len(o.Queries))
				if d := os.Getenv("GOVC_DUMPCAND"); d != "" && strings.Contains(o.Name, d) && round == 2 {
					for qi, q := range o.Queries {
						fmt.Fprintf(os.Stderr, ";;;; cand query %d (%s)\n%s\n", qi, q.Result, q.SMT(u.W.Prelude()))
					}
				}
			}
			if !o.Discharged() {
				id := strings.TrimPrefix(o.Name, "cand:")
				disabled[id] = true
				dropped++
			}
		}
		res.CandsDropped += dropped
		if dropped == 0 {
			res.CandsKept = len(aux)
			break
		}
	}
	// static frame obligations (`nowrite`): discharged by the type-based effect analysis over the
	// SSA of the function and everything it can call (no SMT involved)
	if u.C != nil && len(u.C.NoWrite) > 0 && u.Refused == "" {
		eff := v.effectsOf(fn, map[*ssa.Function]bool{})
		for _, k := range u.C.NoWrite {
			ok := !eff.all && !eff.heaps[k]
			goal := False
			desc := "no store, append, copy or map update anywhere in this function or its callees targets " + k
			if k == "globals" {
				// `nowrite globals`: no package-level variable is written by the function or its callees
				ok = !eff.all && !eff.globals
				desc = "no package-level variable is written anywhere in this function or its callees"
			}
			if ok {
				goal = True
			} else if eff.all {
				desc += " (an unknown callee or function value may write anything)"
			}
			name := fmt.Sprintf("%s#frame.static.%s", shortKey(fnKey(fn)), sanitize(k))
			o := &Obligation{Name: name, Kind: "frame", Func: fnKey(fn), Desc: desc}
			q := &Query{Goal: goal}
			if ok {
				q.Trivial = true
				q.Result = "trivial"
				q.Backend = "effects"
			} else {
				q.Result = "sat"
				q.Backend = "effects"
			}
			o.Queries = []*Query{q}
			u.Obls[name] = o
			u.Ord = append(u.Ord, name)
		}
	}
	res.Unit = u
	res.Refused = u.Refused
	if u.Refused == "" && len(u.W.Unsup) > 0 {
		res.Refused = "unsupported: " + strings.Join(u.W.Unsup, "; ")
	}
	var obls []*Obligation
	for _, o := range u.Obligations() {
		if !o.Aux {
			obls = append(obls, o)
		}
	}
	if res.Refused != "" {
		// a function outside the subset is an undischarged `subset` obligation (partial obligations dropped)
		obls = nil
		o := &Obligation{Name: shortKey(fnKey(fn)) + "#subset", Kind: "subset", Func: fnKey(fn), Desc: res.Refused,
			Queries: []*Query{{Goal: False, Result: "unknown", Backend: "generator"}}}
		obls = append(obls, o)
	} else {
		SolveAll(obls, u.W.Prelude(), so)
		// vacuity canary: some return path must be satisfiable (a contradictory requires/invariant
		// would make every path condition unsat). Stop at the first satisfiable one.
		cso := *so
		cso.Timeout = 3 * time.Second
		cso.FirstTry = 1 * time.Second
		cso.WantModel = false
		cans := append([]*Query(nil), u.Canaries...)
		sort.SliceStable(cans, func(i, j int) bool { return len(cans[i].PC) < len(cans[j].PC) })
		for i := 0; i < len(cans) && res.CanaryOK == 0; i += 4 {
			j := i + 4
			if j > len(cans) {
				j = len(cans)
			}
			var can []*Obligation
			for k, q := range cans[i:j] {
				can = append(can, &Obligation{Name: fmt.Sprintf("canary.%d", i+k), Queries: []*Query{q}})
			}
			SolveAll(can, u.W.Prelude(), &cso)
			for _, q := range cans[i:j] {
				switch q.Result {
				case "sat":
					res.CanaryOK++
				case "unsat":
					res.CanaryBad++
				default:
					res.CanaryUnknown++
				}
			}
			if i >= 24 && res.CanaryUnknown > 0 {
				break // quantified path conditions rarely come back `sat`; unknown is not vacuity
			}
		}
	}
	if res.Refused == "" && len(u.CallProbes) > 0 {
		// call-site vacuity probes: `after` unsat while `before` sat
		pso := *so
		pso.Timeout = 3 * time.Second
		pso.FirstTry = 1 * time.Second
		pso.WantModel = false
		var sites []string
		for k, p := range u.CallProbes {
			if p.After != nil {
				sites = append(sites, k)
			}
		}
		sort.Strings(sites)
		var after []*Obligation
		for _, k := range sites {
			after = append(after, &Obligation{Name: "probe-after:" + k, Queries: []*Query{u.CallProbes[k].After}})
		}
		SolveAll(after, u.W.Prelude(), &pso)
		var before []*Obligation
		var bsites []string
		for _, k := range sites {
			if u.CallProbes[k].After.Result == "unsat" {
				before = append(before, &Obligation{Name: "probe-before:" + k, Queries: []*Query{u.CallProbes[k].Before}})
				bsites = append(bsites, k)
			} else if u.CallProbes[k].After.Result == "sat" {
				res.CallProbesOK++
			}
		}
		if len(before) > 0 {
			pso.Timeout = 10 * time.Second
			SolveAll(before, u.W.Prelude(), &pso)
			for _, k := range bsites {
				if u.CallProbes[k].Before.Result == "sat" {
					res.CallVacuous = append(res.CallVacuous, k)
				}
			}
		}
	}
	if res.Refused == "" && len(u.BlockProbes) > 0 {
		// block reachability: a block of the function all of whose recorded paths are infeasible even
		// without their quantified hypotheses is either dead code or a sign that the encoding has
		// contradicted itself (everything proved below it would be vacuous). Reported, not fatal.
		bso := *so
		bso.Timeout = 2 * time.Second
		bso.FirstTry = 1 * time.Second
		bso.WantModel = false
		bso.BatchOnly = true
		var idxs []int
		for i := range u.BlockProbes {
			idxs = append(idxs, i)
		}
		sort.Ints(idxs)
		var probes []*Obligation
		for _, i := range idxs {
			for k, q := range u.BlockProbes[i] {
				stripQuantified(q, "")
				probes = append(probes, &Obligation{Name: fmt.Sprintf("block.%d.%d", i, k), Queries: []*Query{q}})
			}
		}
		SolveAll(probes, u.W.Prelude(), &bso)
		for _, i := range idxs {
			dead := true
			for _, q := range u.BlockProbes[i] {
				if q.Result != "unsat" {
					dead = false
				}
			}
			if dead && os.Getenv("GOVC_DUMP_DEAD") != "" {
				for k, q := range u.BlockProbes[i] {
					os.WriteFile(fmt.Sprintf("%s/dead_%d_%d.smt2", os.Getenv("GOVC_DUMP_DEAD"), i, k), []byte(q.SMT(u.W.Prelude())), 0o644)
				}
			}
			if dead {
				pos := ""
				for _, in := range fn.Blocks[i].Instrs {
					if in.Pos().IsValid() {
						p := v.Prog.Fset.Position(in.Pos())
						pos = fmt.Sprintf("%s:%d", filepath.Base(p.Filename), p.Line)
						break
					}
				}
				res.DeadBlocks = append(res.DeadBlocks, fmt.Sprintf("%s block %d (%s) %s", shortKey(fnKey(fn)), i, fn.Blocks[i].Comment, pos))
			} else {
				res.BlocksReached++
			}
		}
	}
	res.Obligations = obls
	res.Seconds = time.Since(start).Seconds()
	return res
}

func (r *UnitResult) Summary() string {
	var sb strings.Builder
	ok := 0
	for _, o := range r.Obligations {
		if o.Discharged() {
			ok++
		}
	}
	fmt.Fprintf(&sb, "%s: %d/%d obligations discharged, paths=%d rounds=%d cands=%d kept/%d dropped canaries ok=%d bad=%d unk=%d (%.1fs)",
		shortKey(r.Key), ok, len(r.Obligations), r.Unit.Paths, r.Rounds, r.CandsKept, r.CandsDropped, r.CanaryOK, r.CanaryBad, r.CanaryUnknown, r.Seconds)
	for _, k := range r.DeadBlocks {
		fmt.Fprintf(&sb, "\n  DEAD-BLOCK: %s — every recorded path to it is infeasible", k)
	}
	for _, k := range r.CallVacuous {
		fmt.Fprintf(&sb, "\n  VACUOUS CALL: %s — the callee's contract contradicts the caller's state (feasible before, infeasible after)", k)
	}
	if r.Refused != "" {
		fmt.Fprintf(&sb, " REFUSED: %s", r.Refused)
	}
	return sb.String()
}

func (r *UnitResult) Dump(w *os.File, verbose bool) {
	fmt.Fprintln(w, r.Summary())
	for _, o := range r.Obligations {
		st := o.Status()
		if st == "unsat" && !verbose {
			continue
		}
		secs := 0.0
		be := ""
		for _, q := range o.Queries {
			secs += q.Seconds
			if q.Backend != "" {
				be = q.Backend
			}
		}
		fmt.Fprintf(w, "  %-8s %s  [%s]  %s:%d  (%d queries, %.1fs, %s)\n", st, o.Name, o.Desc, shortFile(o.Pos.Filename), o.Pos.Line, len(o.Queries), secs, be)
		for _, q := range o.Queries {
			if q.Result != "unsat" && q.Result != "trivial" && len(q.Model) > 0 {
				var ks []string
				for k := range q.Model {
					if strings.HasPrefix(k, "p_") || strings.HasPrefix(k, "lp_") {
						ks = append(ks, k)
					}
				}
				sort.Strings(ks)
				for _, k := range ks {
					fmt.Fprintf(w, "      %s = %s\n", k, q.Model[k])
				}
			}
		}
	}
}

func shortFile(f string) string {
	return strings.TrimPrefix(f, "/repo/")
}

package govc

import (
	"fmt"
	"go/token"
	"go/types"
	"sort"
	"strings"

	"golang.org/x/tools/go/ssa"
)

// loop-modified sets
type loopMods struct {
	cells map[*ssa.Alloc]bool
	eff   *effects
}

func (u *Unit) loopMods(fn *ssa.Function, head *ssa.BasicBlock) *loopMods {
	key := head
	if m, ok := u.modsCache[key]; ok {
		return m
	}
	li := u.V.loops(fn)
	m := &loopMods{cells: map[*ssa.Alloc]bool{}, eff: &effects{heaps: map[string]bool{}}}
	var blocks []*ssa.BasicBlock
	for b := range li.body[head] {
		blocks = append(blocks, b)
	}
	sort.Slice(blocks, func(i, j int) bool { return blocks[i].Index < blocks[j].Index })
	for _, b := range blocks {
		for _, in := range b.Instrs {
			if st, ok := in.(*ssa.Store); ok {
				if a, ok := rootOfAddr(st.Addr).(*ssa.Alloc); ok && !a.Heap {
					m.cells[a] = true
				}
			}
			if a, ok := in.(*ssa.Alloc); ok && !a.Heap {
				m.cells[a] = true
			}
		}
	}
	u.V.scanEffects(blocks, m.eff, map[*ssa.Function]bool{fn: true})
	u.modsCache[key] = m
	return m
}

// pureEval evaluates an SSA value at a loop head without executing the header,
// when it only depends on cells, values defined outside the loop, len/cap and arithmetic.
func (u *Unit) pureEval(s *State, f *Frame, v ssa.Value, body map[*ssa.BasicBlock]bool, depth int) (*Term, bool) {
	if depth > 6 {
		return nil, false
	}
	w := u.W
	switch x := v.(type) {
	case *ssa.Const:
		if !isInteger(x.Type()) {
			return nil, false
		}
		return u.constVal(x).T, true
	}
	in, isInstr := v.(ssa.Instruction)
	if isInstr && (in.Block() == nil || !body[in.Block()]) {
		if r, ok := f.Vals[v]; ok && r.T != nil {
			return r.T, true
		}
		return nil, false
	}
	if !isInstr {
		if r, ok := f.Vals[v]; ok && r.T != nil {
			return r.T, true
		}
		return nil, false
	}
	switch x := v.(type) {
	case *ssa.UnOp:
		if x.Op == token.MUL {
			if a, ok := x.X.(*ssa.Alloc); ok && !a.Heap {
				if t, ok := f.Cells[a]; ok {
					return t, true
				}
			}
		}
	case *ssa.BinOp:
		if !isInteger(x.Type()) {
			return nil, false
		}
		a, ok1 := u.pureEval(s, f, x.X, body, depth+1)
		b, ok2 := u.pureEval(s, f, x.Y, body, depth+1)
		if !ok1 || !ok2 {
			return nil, false
		}
		switch x.Op {
		case token.ADD:
			return Add(a, b), true
		case token.SUB:
			return Sub(a, b), true
		case token.MUL:
			return Mul(a, b), true
		case token.QUO:
			if bv, ok := b.intVal(); ok && bv.Sign() > 0 {
				return TDiv(a, b), true
			}
		}
	case *ssa.Call:
		if bi, ok := x.Call.Value.(*ssa.Builtin); ok && (bi.Name() == "len" || bi.Name() == "cap") {
			a, ok := u.pureEval(s, f, x.Call.Args[0], body, depth+1)
			if !ok {
				return nil, false
			}
			switch x.Call.Args[0].Type().Underlying().(type) {
			case *types.Slice:
				if bi.Name() == "len" {
					return w.SLen(a), true
				}
				return w.SCap(a), true
			case *types.Basic:
				return w.StrLen(a), true
			}
		}
	case *ssa.Convert:
		if isInteger(x.Type()) && isInteger(x.X.Type()) {
			// only widening conversions are pure here
			fb := x.X.Type().Underlying().(*types.Basic)
			tb := x.Type().Underlying().(*types.Basic)
			fbits, fs := intBits(fb)
			tbits, ts := intBits(tb)
			if (fs == ts && fbits <= tbits) || (!fs && ts && fbits < tbits) {
				return u.pureEval(s, f, x.X, body, depth+1)
			}
		}
	}
	return nil, false
}

type candidate struct {
	id   string
	eval func(s *State, f *Frame, al *ActiveLoop) *Term
}

// exit/guard comparisons of a loop: If instructions in the loop with integer comparison conditions.
func loopCompares(body map[*ssa.BasicBlock]bool) []*ssa.BinOp {
	var out []*ssa.BinOp
	var blocks []*ssa.BasicBlock
	for b := range body {
		blocks = append(blocks, b)
	}
	sort.Slice(blocks, func(i, j int) bool { return blocks[i].Index < blocks[j].Index })
	for _, b := range blocks {
		if len(b.Instrs) == 0 {
			continue
		}
		if iff, ok := b.Instrs[len(b.Instrs)-1].(*ssa.If); ok {
			if bo, ok := iff.Cond.(*ssa.BinOp); ok && isInteger(bo.X.Type()) {
				switch bo.Op {
				case token.LSS, token.LEQ, token.GTR, token.GEQ, token.NEQ:
					out = append(out, bo)
				}
			}
		}
	}
	return out
}

func (u *Unit) candidates(fn *ssa.Function, head *ssa.BasicBlock, ord int, mods *loopMods, s *State, f *Frame) []*candidate {
	li := u.V.loops(fn)
	body := li.body[head]
	var out []*candidate
	pre := fmt.Sprintf("%s/L%d/", shortKey(fnKey(fn)), ord)
	var cells []*ssa.Alloc
	for c := range mods.cells {
		cells = append(cells, c)
	}
	sort.Slice(cells, func(i, j int) bool {
		return cells[i].Pos() < cells[j].Pos() || (cells[i].Pos() == cells[j].Pos() && cells[i].Name() < cells[j].Name())
	})
	// bound terms from comparisons
	type bnd struct {
		name string
		t    *Term
	}
	var bounds []bnd
	cmps := loopCompares(body)
	if u.W.IntBV {
		cmps = nil
	}
	for i, cmp := range cmps {
		for j, opnd := range []ssa.Value{cmp.X, cmp.Y} {
			// operand must not depend on modified cells: evaluate with a probe
			if t, ok := u.pureEvalInvariant(s, f, opnd, body, mods); ok {
				bounds = append(bounds, bnd{fmt.Sprintf("c%d.%d", i, j), t})
			}
		}
	}
	for ci, c := range cells {
		c := c
		pt := c.Type().(*types.Pointer).Elem()
		cname := c.Comment
		if cname == "" {
			cname = c.Name()
		}
		cid := fmt.Sprintf("%s%s#%d", pre, cname, ci)
		switch {
		case isInteger(pt) && u.W.IntBV:
			// no integer templates in bit-vector mode
		case isInteger(pt) && !isCounterCell(c, body):
			// assigned from something other than itself +/- a constant: no numeric templates
		case isInteger(pt):
			// relations between two counters of the loop: c <= d, c <= d+1
			for cj, d := range cells {
				d := d
				if d == c || !isInteger(d.Type().(*types.Pointer).Elem()) || !isCounterCell(d, body) {
					continue
				}
				for _, off := range []int64{0, 1} {
					off := off
					out = append(out, &candidate{fmt.Sprintf("%s<=#%d%+d", cid, cj, off), func(s *State, f *Frame, al *ActiveLoop) *Term {
						return Le(f.Cells[c], Add(f.Cells[d], IntLit(off)))
					}})
				}
			}
			out = append(out,
				&candidate{cid + ">=entry", func(s *State, f *Frame, al *ActiveLoop) *Term {
					return Ge(f.Cells[c], al.Entry.Cells[c])
				}},
				&candidate{cid + "<=entry", func(s *State, f *Frame, al *ActiveLoop) *Term {
					return Le(f.Cells[c], al.Entry.Cells[c])
				}})
			for _, b := range bounds {
				b := b
				for _, off := range []int64{0, 1, -1} {
					off := off
					x := Add(b.t, IntLit(off))
					out = append(out,
						&candidate{fmt.Sprintf("%s<=%s%+d", cid, b.name, off), func(s *State, f *Frame, al *ActiveLoop) *Term {
							return Le(f.Cells[c], x)
						}},
						&candidate{fmt.Sprintf("%s<=%s%+d|entry", cid, b.name, off), func(s *State, f *Frame, al *ActiveLoop) *Term {
							return Or(Le(f.Cells[c], x), Eq(f.Cells[c], al.Entry.Cells[c]))
						}},
						&candidate{fmt.Sprintf("%s>=%s%+d", cid, b.name, off), func(s *State, f *Frame, al *ActiveLoop) *Term {
							return Ge(f.Cells[c], x)
						}},
						&candidate{fmt.Sprintf("%s>=%s%+d|entry", cid, b.name, off), func(s *State, f *Frame, al *ActiveLoop) *Term {
							return Or(Ge(f.Cells[c], x), Eq(f.Cells[c], al.Entry.Cells[c]))
						}})
				}
			}
		case isSliceType(pt):
			w := u.W
			out = append(out,
				&candidate{cid + ".fresh", func(s *State, f *Frame, al *ActiveLoop) *Term {
					return Or(Ge(w.SRef(f.Cells[c]), s.Entry.Alloc), Eq(w.SRef(f.Cells[c]), IntLit(0)))
				}},
				&candidate{cid + ".fresh|entry", func(s *State, f *Frame, al *ActiveLoop) *Term {
					return Or(Ge(w.SRef(f.Cells[c]), s.Entry.Alloc), Eq(f.Cells[c], al.Entry.Cells[c]))
				}},
				&candidate{cid + ".sameref", func(s *State, f *Frame, al *ActiveLoop) *Term {
					return And(Eq(w.SRef(f.Cells[c]), w.SRef(al.Entry.Cells[c])), Eq(w.SOff(f.Cells[c]), w.SOff(al.Entry.Cells[c])))
				}},
				&candidate{cid + ".len>=entry", func(s *State, f *Frame, al *ActiveLoop) *Term {
					return Ge(w.SLen(f.Cells[c]), w.SLen(al.Entry.Cells[c]))
				}},
				&candidate{cid + ".off0", func(s *State, f *Frame, al *ActiveLoop) *Term {
					return Eq(w.SOff(f.Cells[c]), IntLit(0))
				}},
				&candidate{cid + ".same", func(s *State, f *Frame, al *ActiveLoop) *Term {
					return Eq(f.Cells[c], al.Entry.Cells[c])
				}})
			// len relation to integer counters: len(c) == i, len(c) <= i
			for cj, d := range cells {
				d := d
				if d == c || !isInteger(d.Type().(*types.Pointer).Elem()) || u.W.IntBV || !isCounterCell(d, body) {
					continue
				}
				for _, off := range []int64{0, 1} {
					off := off
					out = append(out, &candidate{fmt.Sprintf("%s.len<=#%d%+d", cid, cj, off), func(s *State, f *Frame, al *ActiveLoop) *Term {
						return Le(w.SLen(f.Cells[c]), Add(f.Cells[d], IntLit(off)))
					}})
				}
				for _, off := range []int64{0, -1} {
					off := off
					out = append(out, &candidate{fmt.Sprintf("%s.len>=#%d%+d", cid, cj, off), func(s *State, f *Frame, al *ActiveLoop) *Term {
						return Ge(w.SLen(f.Cells[c]), Add(f.Cells[d], IntLit(off)))
					}})
				}
			}
		case isPointerLike(pt):
			out = append(out, &candidate{cid + ".same", func(s *State, f *Frame, al *ActiveLoop) *Term {
				return Eq(f.Cells[c], al.Entry.Cells[c])
			}})
		}
	}
	// heap frame candidates: memory that existed at function entry is unchanged by the loop
	var keys []string
	for k := range mods.eff.heaps {
		keys = append(keys, k)
	}
	sort.Strings(keys)
	for _, k := range keys {
		k := k
		out = append(out, &candidate{pre + "heap:" + k + ".old-unchanged", func(s *State, f *Frame, al *ActiveLoop) *Term {
			h, ok := s.Heaps[k]
			h0, ok0 := al.Entry.Heaps[k]
			if !ok || !ok0 {
				return True
			}
			r := Leaf("r!f", "Int")
			return Forall([]*Term{r}, Implies(Lt(r, s.Entry.Alloc), Eq(Select(h, r), Select(h0, r))), Select(h, r))
		}})
	}
	return out
}

func isSliceType(t types.Type) bool {
	_, ok := t.Underlying().(*types.Slice)
	return ok
}

// pureEvalInvariant: like pureEval but fails if the value reads a cell modified in the loop.
func (u *Unit) pureEvalInvariant(s *State, f *Frame, v ssa.Value, body map[*ssa.BasicBlock]bool, mods *loopMods) (*Term, bool) {
	dep := false
	var walk func(v ssa.Value, d int)
	walk = func(v ssa.Value, d int) {
		if d > 6 || dep {
			return
		}
		in, ok := v.(ssa.Instruction)
		if !ok || in.Block() == nil || !body[in.Block()] {
			return
		}
		switch x := v.(type) {
		case *ssa.UnOp:
			if a, ok := x.X.(*ssa.Alloc); ok && x.Op == token.MUL {
				if mods.cells[a] {
					dep = true
				}
				return
			}
			dep = true
		case *ssa.BinOp:
			walk(x.X, d+1)
			walk(x.Y, d+1)
		case *ssa.Call:
			for _, a := range x.Call.Args {
				walk(a, d+1)
			}
		case *ssa.Convert:
			walk(x.X, d+1)
		default:
			dep = true
		}
	}
	walk(v, 0)
	if dep {
		return nil, false
	}
	return u.pureEval(s, f, v, body, 0)
}

// enterBlock handles loop heads. Returns true if the path ends here.
func (u *Unit) enterBlock(s *State, f *Frame) bool {
	li := u.V.loops(f.Fn)
	body, isHead := li.body[f.Block]
	if !isHead {
		return false
	}
	ord := 0
	for i, h := range li.heads {
		if h == f.Block {
			ord = i + 1
		}
	}
	fk := fnKey(f.Fn)
	var spec *LoopSpec
	if c := u.contractOfFrame(f); c != nil && c.Loops != nil {
		spec = c.Loops[ord]
	}
	// back edge?
	if n := len(f.Loops); n > 0 && f.Loops[n-1].Head == f.Block {
		al := f.Loops[n-1]
		if spec != nil && spec.Unroll > 0 {
			al.Unrolled++
			if al.Unrolled > spec.Unroll {
				name := fmt.Sprintf("%s#unwind.%d", shortKey(fk), ord)
				u.oblige(s, name, "unwind", f.Block.Instrs[0].Pos(), fmt.Sprintf("loop %d runs more than %d times", ord, spec.Unroll), False)
				s.Dead = true
				return true
			}
			return false
		}
		u.checkInvariants(s, f, al, spec, ord, "inv-pres")
		// variant
		if al.Variant != nil {
			nv := u.variantAt(s, f, al, spec, body)
			if nv != nil {
				name := fmt.Sprintf("%s#term.%d", shortKey(fk), ord)
				u.oblige(s, name, "term", f.Block.Instrs[0].Pos(), fmt.Sprintf("loop %d variant decreases and is bounded below", ord),
					And(Lt(nv, al.Variant), Ge(al.Variant, IntLit(0))))
			}
		}
		s.Frames = nil // path ends
		return true
	}
	// first entry
	al := &ActiveLoop{Head: f.Block, Ord: ord, Spec: spec}
	f.Loops = append(f.Loops, al)
	if spec != nil && spec.Unroll > 0 {
		return false
	}
	al.Entry = s.snap()
	mods := u.loopMods(f.Fn, f.Block)
	cands := u.candidates(f.Fn, f.Block, ord, mods, s, f)
	// establish
	u.checkInvariantsInit(s, f, al, spec, ord, cands)
	// havoc. The allocation counter first: values held by the havoced cells and heaps may refer to
	// objects allocated by earlier iterations, so their well-formedness ("every reference is below
	// the allocation counter") must be stated against the counter as it is at an arbitrary iteration,
	// not as it was on entry to the loop.
	if mods.eff.allocs {
		na := u.fresh(s, "alloc", "Int")
		s.assume(Ge(na, s.Alloc))
		s.Alloc = na
	}
	for c := range mods.cells {
		if old, ok := f.Cells[c]; ok {
			pt := c.Type().(*types.Pointer).Elem()
			nv := u.fresh(s, "lp_"+c.Comment, old.Sort)
			s.assume(u.wf(s, pt, nv))
			f.Cells[c] = nv
		}
	}
	// iterators advanced in the loop (range over string): position is monotone and within the string
	for b := range li.body[f.Block] {
		for _, in := range b.Instrs {
			if nx, ok := in.(*ssa.Next); ok {
				if it := f.Iters[nx.Iter]; it != nil && it.IsStr {
					np := u.fresh(s, "itpos", "Int")
					s.assume(And(Ge(np, it.Pos), Le(np, u.W.StrLen(u.term(s, it.X)))))
					nit := *it
					nit.Pos = np
					f.Iters[nx.Iter] = &nit
				}
			}
		}
	}
	if mods.eff.all {
		s.DirtyAll = true
		s.DirtyNoFrame = true
		for k, h := range s.Heaps {
			s.Heaps[k] = u.havocHeap(s, k, h)
		}
	} else {
		for k := range mods.eff.heaps {
			u.ensureHeap(s, k)
			if h, ok := s.Heaps[k]; ok {
				s.Heaps[k] = u.havocHeap(s, k, h)
			}
		}
	}
	if mods.eff.globals {
		for g, t := range s.Globals {
			if !u.V.isConstGlobal(g) {
				s.Globals[g] = u.fresh(s, "g_"+g.Name(), t.Sort)
			}
		}
	}
	// re-assume wf of cells that were not havoced relative to new alloc: nothing to do (alloc only grows)
	// assume invariants
	env := u.specEnv(s, f)
	if spec != nil {
		for _, inv := range spec.Invariants {
			s.assume(u.evalBool(env, inv.E))
		}
	}
	for _, c := range cands {
		if u.candEnabled(c.id) {
			s.assume(u.candEval(c, s, f, al))
		}
	}
	al.CandList = cands
	// variant at head
	al.Variant = u.variantAt(s, f, al, spec, body)
	if al.Variant != nil {
		al.Variant = u.named(s, "variant", al.Variant)
	}
	return false
}

func (u *Unit) contractOfFrame(f *Frame) *Contract {
	if f.Fn == u.Fn {
		return u.C
	}
	return u.V.contractFor(f.Fn)
}

func (u *Unit) candEnabled(id string) bool {
	if !u.UseCands {
		return false
	}
	return !u.disabled[id]
}

func (u *Unit) checkInvariantsInit(s *State, f *Frame, al *ActiveLoop, spec *LoopSpec, ord int, cands []*candidate) {
	fk := fnKey(f.Fn)
	pos := f.Block.Instrs[0].Pos()
	if spec != nil {
		env := u.specEnv(s, f)
		for i, inv := range spec.Invariants {
			name := fmt.Sprintf("%s#inv-init.%d.%d", shortKey(fk), ord, i+1)
			u.oblige(s, name, "inv-init", pos, fmt.Sprintf("loop %d invariant holds on entry: %s", ord, inv.Text), u.evalBool(env, inv.E))
		}
	}
	for _, c := range cands {
		if u.candEnabled(c.id) {
			name := "cand:" + c.id
			q := u.oblige(s, name, "cand", pos, "inferred invariant candidate (init)", u.candEval(c, s, f, al))
			u.Obls[name].Aux = true
			stripQuantified(q, c.id)
		}
	}
}

func (u *Unit) checkInvariants(s *State, f *Frame, al *ActiveLoop, spec *LoopSpec, ord int, kind string) {
	fk := fnKey(f.Fn)
	pos := f.Block.Instrs[0].Pos()
	if spec != nil {
		env := u.specEnv(s, f)
		for i, inv := range spec.Invariants {
			name := fmt.Sprintf("%s#%s.%d.%d", shortKey(fk), kind, ord, i+1)
			u.oblige(s, name, kind, pos, fmt.Sprintf("loop %d invariant preserved: %s", ord, inv.Text), u.evalBool(env, inv.E))
		}
	}
	for _, c := range al.CandList {
		if u.candEnabled(c.id) {
			name := "cand:" + c.id
			q := u.oblige(s, name, "cand", pos, "inferred invariant candidate (preserved)", u.candEval(c, s, f, al))
			u.Obls[name].Aux = true
			stripQuantified(q, c.id)
		}
	}
}

// variantAt: the declared `decreases` expression, else derived from the loop's exit comparison.
func (u *Unit) variantAt(s *State, f *Frame, al *ActiveLoop, spec *LoopSpec, body map[*ssa.BasicBlock]bool) *Term {
	if spec != nil && spec.Decreases != nil {
		env := u.specEnv(s, f)
		v := u.evalSpec(env, spec.Decreases.E)
		return v.T
	}
	if !u.WantTerm {
		return nil
	}
	// range over a string: the byte position strictly increases and is bounded by the length
	for b := range body {
		for _, in := range b.Instrs {
			if nx, ok := in.(*ssa.Next); ok && nx.IsString {
				if it := f.Iters[nx.Iter]; it != nil && it.IsStr {
					return Add(Sub(u.W.StrLen(u.term(s, it.X)), it.Pos), IntLit(1))
				}
			}
		}
	}
	// first comparison that guards a loop exit
	var blocks []*ssa.BasicBlock
	for b := range body {
		blocks = append(blocks, b)
	}
	sort.Slice(blocks, func(i, j int) bool { return blocks[i].Index < blocks[j].Index })
	for _, b := range blocks {
		if len(b.Instrs) == 0 {
			continue
		}
		iff, ok := b.Instrs[len(b.Instrs)-1].(*ssa.If)
		if !ok {
			continue
		}
		exitsOnFalse := !body[b.Succs[1]]
		exitsOnTrue := !body[b.Succs[0]]
		if !exitsOnFalse && !exitsOnTrue {
			continue
		}
		bo, ok := iff.Cond.(*ssa.BinOp)
		if !ok || !isInteger(bo.X.Type()) {
			continue
		}
		x, ok1 := u.pureEval(s, f, bo.X, body, 0)
		y, ok2 := u.pureEval(s, f, bo.Y, body, 0)
		if !ok1 || !ok2 {
			continue
		}
		op := bo.Op
		if exitsOnTrue {
			// continue while !(x op y)
			op = map[token.Token]token.Token{token.LSS: token.GEQ, token.LEQ: token.GTR, token.GTR: token.LEQ, token.GEQ: token.LSS, token.NEQ: token.EQL, token.EQL: token.NEQ}[op]
		}
		switch op {
		case token.LSS:
			return Add(Sub(y, x), IntLit(1))
		case token.LEQ:
			return Add(Sub(y, x), IntLit(2))
		case token.GTR:
			return Add(Sub(x, y), IntLit(1))
		case token.GEQ:
			return Add(Sub(x, y), IntLit(2))
		}
	}
	// no derivable variant: a term obligation that cannot be discharged
	fk := fnKey(f.Fn)
	name := fmt.Sprintf("%s#term.%d", shortKey(fk), al.Ord)
	if _, ok := u.Obls[name]; !ok {
		u.oblige(s, name, "term", f.Block.Instrs[0].Pos(), fmt.Sprintf("loop %d has no variant (add `decreases`)", al.Ord), False)
	}
	return nil
}

// candEval evaluates a candidate; a candidate over a cell that does not exist (yet) is vacuous.
func (u *Unit) candEval(c *candidate, s *State, f *Frame, al *ActiveLoop) (t *Term) {
	defer func() {
		if r := recover(); r != nil {
			if _, ok := r.(unsupportedErr); ok {
				panic(r)
			}
			t = True
		}
	}()
	return c.eval(s, f, al)
}

// isCounterCell: every store to c inside the loop is `c = c + k` or `c = c - k` for a constant k.
func isCounterCell(c *ssa.Alloc, body map[*ssa.BasicBlock]bool) bool {
	n := 0
	for b := range body {
		for _, in := range b.Instrs {
			st, ok := in.(*ssa.Store)
			if !ok || st.Addr != c {
				continue
			}
			n++
			bo, ok := st.Val.(*ssa.BinOp)
			if !ok || (bo.Op != token.ADD && bo.Op != token.SUB) {
				return false
			}
			ld, ok := bo.X.(*ssa.UnOp)
			if !ok || ld.Op != token.MUL || ld.X != c {
				return false
			}
			if _, ok := bo.Y.(*ssa.Const); !ok {
				return false
			}
		}
	}
	return n > 0
}

// stripQuantified: numeric and freshness candidates are proved from the quantifier-free part of
// the path condition only (fewer hypotheses: still sound, and decided in milliseconds instead of
// timing out under load). Heap-frame candidates keep the full context.
func stripQuantified(q *Query, id string) {
	if q == nil || strings.Contains(id, "heap:") {
		return
	}
	var pc []*Term
	for _, p := range q.PC {
		ps := p.String()
		if strings.Contains(ps, "(forall ") || strings.Contains(ps, "(exists ") {
			continue
		}
		pc = append(pc, p)
	}
	q.PC = pc
}

package govc

import (
	"fmt"
	"go/types"
	"path/filepath"
	"sort"
	"strings"
	"sync"

	"golang.org/x/tools/go/packages"
	"golang.org/x/tools/go/ssa"
	"golang.org/x/tools/go/ssa/ssautil"
)

const RepoModule = "github.com/paulmach/orb"

type Verifier struct {
	RepoDir            string
	Prog               *ssa.Program
	Pkgs               []*packages.Package
	SSAPkgs            map[string]*ssa.Package
	Contracts          map[string]*ContractFile // by package path
	loopCache          map[*ssa.Function]*loopInfo
	effCache           map[*ssa.Function]*effects
	typeCache          map[string]types.Type
	funcs              map[string]*ssa.Function // by key
	constGlob          map[*ssa.Global]int      // 0 unknown, 1 const, 2 not
	globInit           map[*ssa.Global]bool
	disabledCands      map[string]bool
	OvfAssume          bool
	ConvObligations    bool
	implCache          map[string][]types.Type
	mu                 sync.Mutex
	VerifiedSeparately map[string]bool // functions verified as their own unit in this run
}

func sortStrings(s []string) { sort.Strings(s) }

func Load(repoDir string, patterns ...string) (*Verifier, error) {
	cfg := &packages.Config{Mode: packages.LoadAllSyntax, Dir: repoDir, BuildFlags: []string{"-tags=verif"},
		Env: append(envNoNet(), "GOFLAGS=-mod=mod")}
	pkgs, err := packages.Load(cfg, patterns...)
	if err != nil {
		return nil, err
	}
	var errs []string
	packages.Visit(pkgs, nil, func(p *packages.Package) {
		for _, e := range p.Errors {
			errs = append(errs, e.Error())
		}
	})
	if len(errs) > 0 {
		return nil, fmt.Errorf("load errors: %s", strings.Join(errs, "; "))
	}
	prog, _ := ssautil.AllPackages(pkgs, ssa.NaiveForm|ssa.GlobalDebug)
	prog.Build()
	v := &Verifier{RepoDir: repoDir, Prog: prog, Pkgs: pkgs, SSAPkgs: map[string]*ssa.Package{}, Contracts: map[string]*ContractFile{},
		loopCache: map[*ssa.Function]*loopInfo{}, effCache: map[*ssa.Function]*effects{}, typeCache: map[string]types.Type{},
		funcs: map[string]*ssa.Function{}, constGlob: map[*ssa.Global]int{}, disabledCands: map[string]bool{}, implCache: map[string][]types.Type{}}
	for _, p := range prog.AllPackages() {
		v.SSAPkgs[p.Pkg.Path()] = p
	}
	// contracts for every repo package that has a contract file
	packages.Visit(pkgs, nil, func(p *packages.Package) {
		if !v.inRepoPkg(p.PkgPath) || len(p.GoFiles) == 0 {
			return
		}
		dir := filepath.Dir(p.GoFiles[0])
		cf, err2 := LoadContracts(dir, p.PkgPath)
		if err2 != nil {
			err = err2
			return
		}
		v.Contracts[p.PkgPath] = cf
	})
	if err != nil {
		return nil, err
	}
	// index functions
	for fn := range ssautil.AllFunctions(prog) {
		if fn.Synthetic != "" && !strings.Contains(fn.Synthetic, "package initializer") {
			continue
		}
		v.funcs[fnKey(fn)] = fn
	}
	return v, nil
}

func envNoNet() []string {
	return append(osEnviron(), "GOPROXY=off", "GOSUMDB=off", "GOTOOLCHAIN=local")
}

func (v *Verifier) inRepoPkg(path string) bool {
	return path == RepoModule || strings.HasPrefix(path, RepoModule+"/")
}

func (v *Verifier) inRepo(fn *ssa.Function) bool {
	for fn.Parent() != nil {
		fn = fn.Parent()
	}
	if fn.Pkg != nil {
		return v.inRepoPkg(fn.Pkg.Pkg.Path())
	}
	if o := fn.Object(); o != nil && o.Pkg() != nil {
		return v.inRepoPkg(o.Pkg().Path())
	}
	return false
}

func (v *Verifier) typesPkg(path string) *types.Package {
	if p, ok := v.SSAPkgs[path]; ok {
		return p.Pkg
	}
	return nil
}

func (v *Verifier) FuncByKey(key string) *ssa.Function { return v.funcs[key] }

func (v *Verifier) pkgPathOf(fn *ssa.Function) string {
	for fn.Parent() != nil {
		fn = fn.Parent()
	}
	if fn.Pkg != nil {
		return fn.Pkg.Pkg.Path()
	}
	if o := fn.Object(); o != nil && o.Pkg() != nil {
		return o.Pkg().Path()
	}
	return ""
}

func (v *Verifier) contractFileFor(fn *ssa.Function) *ContractFile {
	return v.Contracts[v.pkgPathOf(fn)]
}

func (v *Verifier) anyContractFile() *ContractFile {
	return v.Contracts[RepoModule]
}

func (v *Verifier) contractFor(fn *ssa.Function) *Contract {
	key := fnKey(fn)
	if cf := v.contractFileFor(fn); cf != nil {
		if c, ok := cf.Contracts[key]; ok {
			return c
		}
	}
	// assumed contracts on functions outside /repo may live in any contract file
	if !v.inRepo(fn) {
		for _, cf := range v.Contracts {
			if c, ok := cf.Externs[key]; ok {
				return c
			}
		}
	}
	return nil
}

func (v *Verifier) specFunc(cf *ContractFile, name string) *SpecFunc {
	sf, _ := v.specFuncIn(cf, name)
	return sf
}

// specFuncIn also returns the contract file that defines the spec function (its type names are
// resolved in that package).
func (v *Verifier) specFuncIn(cf *ContractFile, name string) (*SpecFunc, *ContractFile) {
	if cf != nil {
		if sf, ok := cf.SpecFuncs[name]; ok {
			return sf, cf
		}
	}
	// spec functions of the root package are visible everywhere
	if root := v.Contracts[RepoModule]; root != nil {
		if sf, ok := root.SpecFuncs[name]; ok {
			return sf, root
		}
	}
	// and pkg-qualified: pkgname.f
	if i := strings.Index(name, "."); i > 0 {
		for path, c := range v.Contracts {
			if filepath.Base(path) == name[:i] {
				if sf, ok := c.SpecFuncs[name[i+1:]]; ok {
					return sf, c
				}
			}
		}
	}
	return nil, nil
}

// ifaceContract: contract on an interface method, written `func (Iface).Method(recv, args)` with
// key "<pkg>.(Iface).Method" in the contract file of the interface's package.
func (v *Verifier) ifaceContract(t types.Type, method string) *Contract {
	n, ok := t.(*types.Named)
	if !ok || n.Obj().Pkg() == nil {
		return nil
	}
	key := n.Obj().Pkg().Path() + ".(" + n.Obj().Name() + ")." + method
	for _, cf := range v.Contracts {
		if c, ok := cf.Contracts[key]; ok {
			return c
		}
		if c, ok := cf.Externs[key]; ok {
			return c
		}
	}
	return nil
}

// implementerTypes: concrete named (non-pointer) types in /repo implementing interface t,
// only when the interface is closed to /repo (has an unexported method) or declared in /repo.
func (v *Verifier) implementerTypes(t types.Type) []types.Type {
	key := t.String()
	v.mu.Lock()
	r, ok := v.implCache[key]
	v.mu.Unlock()
	if ok {
		return r
	}
	iface, ok := t.Underlying().(*types.Interface)
	if !ok {
		return nil
	}
	n, isNamed := t.(*types.Named)
	// closed to /repo only if nobody outside can implement it: an unexported interface type, or one
	// with an unexported method (orb.Geometry's private()); orb.Pointer, orb.Simplifier are open
	closed := false
	if isNamed && n.Obj().Pkg() != nil && v.inRepoPkg(n.Obj().Pkg().Path()) {
		if !n.Obj().Exported() {
			closed = true
		}
		for i := 0; i < iface.NumMethods(); i++ {
			if !iface.Method(i).Exported() {
				closed = true
			}
		}
	}
	if !closed {
		v.mu.Lock()
		v.implCache[key] = nil
		v.mu.Unlock()
		return nil
	}
	var out []types.Type
	var paths []string
	for p := range v.SSAPkgs {
		if v.inRepoPkg(p) {
			paths = append(paths, p)
		}
	}
	sort.Strings(paths)
	for _, p := range paths {
		sc := v.SSAPkgs[p].Pkg.Scope()
		for _, name := range sc.Names() {
			tn, ok := sc.Lookup(name).(*types.TypeName)
			if !ok || tn.IsAlias() {
				continue
			}
			ty := tn.Type()
			if _, isIface := ty.Underlying().(*types.Interface); isIface {
				continue
			}
			if types.Implements(ty, iface) {
				out = append(out, ty)
			} else if types.Implements(types.NewPointer(ty), iface) {
				out = append(out, types.NewPointer(ty))
			}
		}
	}
	v.mu.Lock()
	v.implCache[key] = out
	v.mu.Unlock()
	return out
}

// openWorld: can values of this interface type have dynamic types other than implementerTypes?
// orb.Geometry has an unexported method, but *T for every T also implements it; so the
// exhaustiveness of a dispatch is always an obligation ("dyn") discharged from validGeom-style
// preconditions.
func (v *Verifier) openWorld(t types.Type) bool { return true }

func (v *Verifier) typesImplementing(t types.Type) []types.Type {
	return v.implementerTypes(t)
}

func (v *Verifier) implementers(t types.Type, m *types.Func) []*ssa.Function {
	var out []*ssa.Function
	for _, ty := range v.implementerTypes(t) {
		if f := v.methodOf(ty, m); f != nil {
			out = append(out, f)
		}
	}
	return out
}

func (v *Verifier) methodOf(t types.Type, m *types.Func) *ssa.Function {
	ms := v.Prog.MethodSets.MethodSet(t)
	sel := ms.Lookup(m.Pkg(), m.Name())
	if sel == nil {
		return nil
	}
	return v.Prog.MethodValue(sel)
}

// inlinable: loop-free, non-recursive, small function in /repo.
func (v *Verifier) inlinable(fn *ssa.Function) bool {
	if fn.Blocks == nil {
		return false
	}
	if len(v.loops(fn).heads) > 0 {
		return false
	}
	n := 0
	for _, b := range fn.Blocks {
		n += len(b.Instrs)
		for _, in := range b.Instrs {
			switch in.(type) {
			case *ssa.Go, *ssa.Defer, *ssa.Select:
				return false
			}
		}
	}
	return n <= 400 && len(fn.Blocks) <= 40
}

// ---------- package-level variables ----------

// isConstGlobal: an unexported (or error sentinel) package variable that no function other than
// the package initializer stores to or takes the address of.
func (v *Verifier) isConstGlobal(g *ssa.Global) bool {
	v.mu.Lock()
	st := v.constGlob[g]
	v.mu.Unlock()
	if st != 0 {
		return st == 1
	}
	res := 1
	if g.Pkg == nil {
		res = 2
	} else {
		for _, m := range g.Pkg.Members {
			fn, ok := m.(*ssa.Function)
			if !ok {
				continue
			}
			if v.storesGlobal(fn, g, fn.Name() == "init") {
				res = 2
				break
			}
		}
		if res == 1 {
			// methods and closures
			for fn := range ssautil.AllFunctions(v.Prog) {
				if fn.Pkg == g.Pkg && fn.Name() != "init" && v.storesGlobal(fn, g, false) {
					res = 2
					break
				}
			}
		}
		if res == 1 && g.Object() != nil && g.Object().Exported() {
			// exported variables may be assigned by clients — except error sentinels
			if !strings.HasPrefix(g.Name(), "Err") {
				res = 2
			}
		}
	}
	v.mu.Lock()
	v.constGlob[g] = res
	v.mu.Unlock()
	return res == 1
}

func (v *Verifier) storesGlobal(fn *ssa.Function, g *ssa.Global, isInit bool) bool {
	if isInit {
		return false
	}
	for _, b := range fn.Blocks {
		for _, in := range b.Instrs {
			for _, op := range in.Operands(nil) {
				if *op != g {
					continue
				}
				// a plain load `*g` is fine; anything else (store target, address escape, field addr) is not,
				// except FieldAddr/IndexAddr chains that end in loads
				if !v.onlyLoaded(in, g) {
					return true
				}
			}
		}
	}
	return false
}

func (v *Verifier) onlyLoaded(in ssa.Instruction, g ssa.Value) bool {
	switch x := in.(type) {
	case *ssa.UnOp:
		return true
	case *ssa.FieldAddr:
		return v.refsOnlyLoaded(x)
	case *ssa.IndexAddr:
		return v.refsOnlyLoaded(x)
	case *ssa.Store:
		return x.Addr != g && x.Val != g
	case *ssa.DebugRef:
		return true
	}
	return false
}

func (v *Verifier) refsOnlyLoaded(val ssa.Value) bool {
	refs := val.Referrers()
	if refs == nil {
		return false
	}
	for _, r := range *refs {
		if !v.onlyLoaded(r, val) {
			return false
		}
	}
	return true
}

// constGlobal returns the initial value of a const-like global by executing the stores of the
// package initializer symbolically (only straight-line stores of constants/composites are used).
func (v *Verifier) constGlobal(u *Unit, g *ssa.Global) *Term {
	if !v.isConstGlobal(g) {
		return nil
	}
	if t, ok := u.globalInit[g]; ok {
		return t
	}
	init := g.Pkg.Func("init")
	if init == nil {
		return nil
	}
	// interpret init: only Alloc/Store/FieldAddr/IndexAddr/UnOp load/Const/MakeSlice-free straight-line code
	vals := u.evalInitFor(init, g)
	u.globalInit[g] = vals
	return vals
}

func (v *Verifier) AllFuncKeys() map[string]bool {
	out := map[string]bool{}
	for k, f := range v.funcs {
		if v.inRepo(f) {
			out[k] = true
		}
	}
	return out
}

func (v *Verifier) contractFileOfKey(key string) *ContractFile {
	for _, cf := range v.Contracts {
		if _, ok := cf.Contracts[key]; ok {
			return cf
		}
		if _, ok := cf.Externs[key]; ok {
			return cf
		}
	}
	return v.anyContractFile()
}

// initNonNil: the package initializer stores into g exactly once, the result of a constructor known
// never to return nil.
func (v *Verifier) initNonNil(g *ssa.Global) bool {
	init := g.Pkg.Func("init")
	if init == nil {
		return false
	}
	n := 0
	ok := false
	for _, b := range init.Blocks {
		for _, in := range b.Instrs {
			st, isStore := in.(*ssa.Store)
			if !isStore || st.Addr != g {
				continue
			}
			n++
			switch x := st.Val.(type) {
			case *ssa.Call:
				if f, isFn := x.Call.Value.(*ssa.Function); isFn {
					switch fnKey(f) {
					case "regexp.MustCompile":
						ok = true
					}
				}
			case *ssa.Alloc:
				ok = true
			}
		}
	}
	return n == 1 && ok
}

// repoFuncByShortName: a package-level function of the unit's package (or pkg.Name qualified).
func (v *Verifier) repoFuncByShortName(pkg *ssa.Package, name string) *ssa.Function {
	if pkg == nil || name == "" {
		return nil
	}
	// Type.Method or pkg.Type.Method: a method of a named type, receiver first
	if parts := strings.Split(name, "."); len(parts) >= 2 {
		tn, mn := parts[len(parts)-2], parts[len(parts)-1]
		cands := []*ssa.Package{pkg}
		if len(parts) == 3 {
			cands = nil
			for path, sp := range v.SSAPkgs {
				if v.inRepoPkg(path) && sp.Pkg.Name() == parts[0] {
					cands = append(cands, sp)
				}
			}
		}
		for _, sp := range cands {
			if sp == nil || sp.Type(tn) == nil {
				continue
			}
			for _, recv := range []string{"(" + tn + ")", "(*" + tn + ")"} {
				if f := v.funcs[sp.Pkg.Path()+"."+recv+"."+mn]; f != nil {
					return f
				}
			}
		}
		if len(parts) == 3 {
			return nil
		}
	}
	if i := strings.Index(name, "."); i > 0 {
		for path, sp := range v.SSAPkgs {
			if v.inRepoPkg(path) && sp.Pkg.Name() == name[:i] {
				if f := sp.Func(name[i+1:]); f != nil {
					return f
				}
			}
		}
		return nil
	}
	return pkg.Func(name)
}

// EffectsString: the write-effect set of a function (debugging aid).
func (v *Verifier) EffectsString(key string) string {
	fn := v.FuncByKey(key)
	if fn == nil {
		return "no such function"
	}
	e := v.effectsOf(fn, map[*ssa.Function]bool{})
	var ks []string
	for k := range e.heaps {
		ks = append(ks, k)
	}
	sort.Strings(ks)
	return fmt.Sprintf("all=%v allocs=%v globals=%v heaps=%v", e.all, e.allocs, e.globals, ks)
}

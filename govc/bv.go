package govc

import (
	"fmt"
	"go/token"
	"go/types"
	"math/big"
	"regexp"
	"strconv"

	"golang.org/x/tools/go/ssa"
)

// Bit-vector integer mode (`mode bv`): every Go integer is a (_ BitVec N) of its exact width.
// Slice headers, lengths and indices stay mathematical integers; the few places where a Go int
// meets them (index, len, make) convert explicitly.

func bvSort(bits uint) string { return fmt.Sprintf("(_ BitVec %d)", bits) }

var bvLitRe = regexp.MustCompile(`^\(_ bv(\d+) (\d+)\)$`)

func bvLit(v *big.Int, bits uint) *Term {
	m := new(big.Int).Lsh(bigOne, bits)
	r := new(big.Int).Mod(v, m)
	return Leaf(fmt.Sprintf("(_ bv%s %d)", r.String(), bits), bvSort(bits))
}

func bvLitVal(t *Term) (*big.Int, uint, bool) {
	if len(t.Args) != 0 {
		return nil, 0, false
	}
	m := bvLitRe.FindStringSubmatch(t.Op)
	if m == nil {
		return nil, 0, false
	}
	v, _ := new(big.Int).SetString(m[1], 10)
	w, _ := strconv.Atoi(m[2])
	return v, uint(w), true
}

func isBVSort(s string) bool { return len(s) > 10 && s[:10] == "(_ BitVec " }

func bvWidth(s string) uint {
	var w uint
	fmt.Sscanf(s, "(_ BitVec %d)", &w)
	return w
}

// toInt: value of a Go integer (BV in bv mode) as a mathematical integer.
func (u *Unit) toInt(t *Term, ty types.Type) *Term {
	if !isBVSort(t.Sort) {
		return t
	}
	b, _ := ty.Underlying().(*types.Basic)
	bits := bvWidth(t.Sort)
	signed := true
	if b != nil {
		_, signed = intBits(b)
	}
	if v, _, ok := bvLitVal(t); ok {
		if signed && v.Bit(int(bits-1)) == 1 {
			v = new(big.Int).Sub(v, new(big.Int).Lsh(bigOne, bits))
		}
		return BigLit(v)
	}
	n := App("bv2nat", "Int", t)
	if signed {
		return Ite(App("bvslt", "Bool", t, bvLit(big.NewInt(0), bits)), Sub(n, pow2(bits)), n)
	}
	return n
}

// fromInt: mathematical integer to the BV of a Go integer type (only in bv mode).
func (u *Unit) fromInt(t *Term, ty types.Type) *Term {
	if !u.W.IntBV || isBVSort(t.Sort) {
		return t
	}
	b := ty.Underlying().(*types.Basic)
	bits, _ := intBits(b)
	if v, ok := t.intVal(); ok {
		return bvLit(v, bits)
	}
	return App(fmt.Sprintf("(_ int2bv %d)", bits), bvSort(bits), t)
}

func (u *Unit) bvBinop(s *State, in ssa.Instruction, op token.Token, at, bt *Term, aty, bty, rty types.Type) *Term {
	ab := aty.Underlying().(*types.Basic)
	bits, signed := intBits(ab)
	bs := bvSort(bits)
	pick := func(sop, uop string) string {
		if signed {
			return sop
		}
		return uop
	}
	switch op {
	case token.ADD:
		return App("bvadd", bs, at, bt)
	case token.SUB:
		return App("bvsub", bs, at, bt)
	case token.MUL:
		return App("bvmul", bs, at, bt)
	case token.QUO:
		u.check(s, "div", in, "integer divide by zero", Not(Eq(bt, bvLit(big.NewInt(0), bits))))
		return App(pick("bvsdiv", "bvudiv"), bs, at, bt)
	case token.REM:
		u.check(s, "div", in, "integer divide by zero", Not(Eq(bt, bvLit(big.NewInt(0), bits))))
		return App(pick("bvsrem", "bvurem"), bs, at, bt)
	case token.AND:
		return App("bvand", bs, at, bt)
	case token.OR:
		return App("bvor", bs, at, bt)
	case token.XOR:
		return App("bvxor", bs, at, bt)
	case token.AND_NOT:
		return App("bvand", bs, at, App("bvnot", bs, bt))
	case token.LSS:
		return App(pick("bvslt", "bvult"), "Bool", at, bt)
	case token.LEQ:
		return App(pick("bvsle", "bvule"), "Bool", at, bt)
	case token.GTR:
		return App(pick("bvsgt", "bvugt"), "Bool", at, bt)
	case token.GEQ:
		return App(pick("bvsge", "bvuge"), "Bool", at, bt)
	case token.SHL, token.SHR:
		// bring the count to the operand width, saturating (Go: count >= width gives 0 / sign fill,
		// which is also what bvshl/bvlshr/bvashr do for counts >= width)
		cb := bty.Underlying().(*types.Basic)
		cbits, csigned := intBits(cb)
		if csigned {
			u.check(s, "shift", in, "negative shift amount", App("bvsge", "Bool", bt, bvLit(big.NewInt(0), cbits)))
		}
		cnt := bt
		if cbits < bits {
			cnt = App(fmt.Sprintf("(_ zero_extend %d)", bits-cbits), bs, bt)
		} else if cbits > bits {
			low := App(fmt.Sprintf("(_ extract %d 0)", bits-1), bs, bt)
			big_ := App("bvuge", "Bool", bt, bvLit(big.NewInt(int64(bits)), cbits))
			cnt = Ite(big_, bvLit(big.NewInt(int64(bits)), bits), low)
		}
		if op == token.SHL {
			return App("bvshl", bs, at, cnt)
		}
		return App(pick("bvashr", "bvlshr"), bs, at, cnt)
	}
	u.unsup("bv binop %s", op)
	return nil
}

func (u *Unit) bvConvert(t *Term, from, to *types.Basic) *Term {
	fbits, fsigned := intBits(from)
	tbits, _ := intBits(to)
	switch {
	case fbits == tbits:
		return t
	case fbits > tbits:
		return App(fmt.Sprintf("(_ extract %d 0)", tbits-1), bvSort(tbits), t)
	case fsigned:
		return App(fmt.Sprintf("(_ sign_extend %d)", tbits-fbits), bvSort(tbits), t)
	}
	return App(fmt.Sprintf("(_ zero_extend %d)", tbits-fbits), bvSort(tbits), t)
}

// coerceLit: an untyped integer literal meeting a bit-vector operand takes its width.
func coerceLit(lit, other *Term) *Term {
	if isBVSort(other.Sort) && lit.Sort == "Int" {
		if v, ok := lit.intVal(); ok {
			return bvLit(v, bvWidth(other.Sort))
		}
	}
	return lit
}

package govc

import (
	"bytes"
	"context"
	"encoding/json"
	"fmt"
	"go/types"
	"os"
	"os/exec"
	"path/filepath"
	"regexp"
	"strconv"
	"strings"
	"time"
)

type replayResult struct {
	Test     string
	Cmd      string
	Observed string
	Verdict  string
	Input    string
	// what `run --replay` needs to run the same test again on the current tree
	Source, Hints, Pos, KindMsg, PkgRel string
}

// targetExpr: Go expression (inside the function's package) denoting the function.
func targetExpr(key string, pkgPath string) string {
	rest := strings.TrimPrefix(key, pkgPath+".")
	// "(Recv).Name" / "(*Recv).Name" / "Name"
	if strings.HasPrefix(rest, "(") {
		i := strings.Index(rest, ").")
		recv := rest[1:i]
		name := rest[i+2:]
		if strings.HasPrefix(recv, "*") {
			return "(" + recv + ")." + name
		}
		return recv + "." + name
	}
	return rest
}

var fpLit = regexp.MustCompile(`\(fp #b([01]) #b([01]{11}) #[bx]([0-9a-fA-F]+)\)`)
var sliceLit = regexp.MustCompile(`\(mk-Slice (\(- \d+\)|\d+) (\(- \d+\)|\d+) (\(- \d+\)|\d+) (\(- \d+\)|\d+)\)`)

type hint struct {
	Name   string   `json:"name"`
	Ints   []int64  `json:"ints"`
	Floats []uint64 `json:"floats"`
	Len    int      `json:"len"`
	HasLen bool     `json:"haslen"`
}

func modelHints(u *Unit, q *Query) []hint {
	var out []hint
	for _, p := range u.Fn.Params {
		var h hint
		h.Name = p.Name()
		for k, val := range q.Model {
			if !strings.HasPrefix(k, "p_"+sanitize(p.Name())+"!") {
				continue
			}
			if m := sliceLit.FindStringSubmatch(val); m != nil {
				n, _ := strconv.ParseInt(strings.Trim(strings.Replace(m[3], "(- ", "-", 1), ")"), 10, 64)
				if n >= 0 && n < 64 {
					h.Len = int(n)
					h.HasLen = true
				}
			}
			for _, m := range fpLit.FindAllStringSubmatch(val, -1) {
				sign, _ := strconv.ParseUint(m[1], 2, 64)
				exp, _ := strconv.ParseUint(m[2], 2, 64)
				var man uint64
				if len(m[3]) == 13 {
					man, _ = strconv.ParseUint(m[3], 16, 64)
				} else {
					man, _ = strconv.ParseUint(m[3], 2, 64)
				}
				h.Floats = append(h.Floats, sign<<63|exp<<52|man)
			}
			if n, err := strconv.ParseInt(strings.Trim(strings.Replace(val, "(- ", "-", 1), ")"), 10, 64); err == nil {
				h.Ints = append(h.Ints, n)
			}
		}
		out = append(out, h)
	}
	return out
}

const replayTemplate = `package %s

import (
	"encoding/json"
	"fmt"
	"math"
	"math/rand"
	"os"
	"reflect"
	"runtime/debug"
	"strings"
	"testing"
)

type vrHint struct {
	Name   string   ` + "`json:\"name\"`" + `
	Ints   []int64  ` + "`json:\"ints\"`" + `
	Floats []uint64 ` + "`json:\"floats\"`" + `
	Len    int      ` + "`json:\"len\"`" + `
	HasLen bool     ` + "`json:\"haslen\"`" + `
}

var vrFloats = []float64{0, 1, -1, 2, 0.5, 3, -2, 10, 180, -180, 90, 85.0511, 1e-9, 1e300, -1e300, math.Inf(1), math.Inf(-1), math.NaN(), math.Copysign(0, -1), 179.99999999999997}
var vrInts = []int64{0, 1, 2, 3, -1, 4, 5, 7, 8, 16, 31, 32, 255, 256, 1 << 28, 1<<28 + 1, 1 << 31, 1<<32 - 1, -2, 1 << 40}

type vrGen struct {
	r     *rand.Rand
	small bool
	depth int
}

func (g *vrGen) float() float64 {
	if g.r.Intn(3) == 0 {
		return float64(g.r.Intn(9) - 4)
	}
	if g.r.Intn(4) == 0 {
		return g.r.Float64()*20 - 10
	}
	return vrFloats[g.r.Intn(len(vrFloats))]
}

func (g *vrGen) length() int {
	k := g.r.Intn(10)
	switch {
	case k < 2:
		return 0
	case k < 4:
		return 1
	case k < 6:
		return 2
	case k < 8:
		return 3
	}
	return 4 + g.r.Intn(4)
}

func (g *vrGen) value(t reflect.Type, h *vrHint) reflect.Value {
	g.depth++
	defer func() { g.depth-- }()
	v := reflect.New(t).Elem()
	switch t.Kind() {
	case reflect.Bool:
		v.SetBool(g.r.Intn(2) == 0)
	case reflect.Int, reflect.Int8, reflect.Int16, reflect.Int32, reflect.Int64:
		var x int64
		if h != nil && len(h.Ints) > 0 {
			x = h.Ints[0]
		} else if g.r.Intn(2) == 0 {
			x = int64(g.r.Intn(6))
		} else {
			x = vrInts[g.r.Intn(len(vrInts))]
		}
		v.SetInt(x)
	case reflect.Uint, reflect.Uint8, reflect.Uint16, reflect.Uint32, reflect.Uint64, reflect.Uintptr:
		var x uint64
		if h != nil && len(h.Ints) > 0 {
			x = uint64(h.Ints[0])
		} else if g.r.Intn(2) == 0 {
			x = uint64(g.r.Intn(6))
		} else {
			x = uint64(vrInts[g.r.Intn(len(vrInts))])
		}
		v.SetUint(x)
	case reflect.Float32, reflect.Float64:
		if h != nil && len(h.Floats) > 0 {
			v.SetFloat(math.Float64frombits(h.Floats[0]))
			h.Floats = h.Floats[1:]
		} else {
			v.SetFloat(g.float())
		}
	case reflect.String:
		words := []string{"", "a", "POINT", "POINT(1 2)", "(", ")", "()", " ", "EMPTY", "1", "\xff", "LINESTRING(1 2,3 4)", ","}
		v.SetString(words[g.r.Intn(len(words))])
	case reflect.Array:
		for i := 0; i < t.Len(); i++ {
			v.Index(i).Set(g.value(t.Elem(), h))
		}
	case reflect.Slice:
		n := g.length()
		if h != nil && h.HasLen {
			n = h.Len
			h = &vrHint{Floats: h.Floats, Ints: nil}
		} else if g.depth > 3 && n > 2 {
			n = 2
		}
		if n == 0 && g.r.Intn(2) == 0 {
			break // nil
		}
		s := reflect.MakeSlice(t, n, n+g.r.Intn(2))
		for i := 0; i < n; i++ {
			s.Index(i).Set(g.value(t.Elem(), h))
		}
		v.Set(s)
	case reflect.Struct:
		for i := 0; i < t.NumField(); i++ {
			if v.Field(i).CanSet() {
				v.Field(i).Set(g.value(t.Field(i).Type, h))
			}
		}
	case reflect.Ptr:
		if g.depth > 4 || g.r.Intn(8) == 0 {
			break
		}
		p := reflect.New(t.Elem())
		p.Elem().Set(g.value(t.Elem(), h))
		v.Set(p)
	case reflect.Interface:
		if alts := vrIfaceAlternatives(t); len(alts) > 0 {
			k := g.r.Intn(len(alts) + 1)
			if k < len(alts) && g.depth < 6 {
				v.Set(g.value(alts[k], nil).Convert(alts[k]))
			}
		}
	case reflect.Func:
		ft := t
		v.Set(reflect.MakeFunc(ft, func(args []reflect.Value) []reflect.Value {
			out := make([]reflect.Value, ft.NumOut())
			for i := range out {
				o := reflect.New(ft.Out(i)).Elem()
				// deterministic simple function of the float arguments
				acc := 0.0
				var walk func(x reflect.Value)
				walk = func(x reflect.Value) {
					switch x.Kind() {
					case reflect.Float64:
						acc = acc*31 + x.Float()
					case reflect.Array, reflect.Slice:
						for j := 0; j < x.Len(); j++ {
							walk(x.Index(j))
						}
					}
				}
				for _, a := range args {
					walk(a)
				}
				switch o.Kind() {
				case reflect.Float64:
					o.SetFloat(math.Abs(acc))
				case reflect.Bool:
					o.SetBool(int64(acc)%%2 == 0)
				case reflect.Array:
					if o.Len() == 2 && o.Index(0).Kind() == reflect.Float64 {
						o.Index(0).SetFloat(acc)
						o.Index(1).SetFloat(-acc)
					}
				}
				out[i] = o
			}
			return out
		}))
	case reflect.Map:
		if g.r.Intn(3) == 0 {
			break
		}
		m := reflect.MakeMap(t)
		n := g.r.Intn(3)
		for i := 0; i < n; i++ {
			m.SetMapIndex(g.value(t.Key(), nil), g.value(t.Elem(), nil))
		}
		v.Set(m)
	}
	return v
}

func TestVerifReplay(t *testing.T) {
	target := reflect.ValueOf(%s)
	tt := target.Type()
	var hints []vrHint
	json.Unmarshal([]byte(os.Getenv("VERIF_HINTS")), &hints)
	seed := int64(%d)
	wantPos := os.Getenv("VERIF_POS")
	found := false
	firstOther := ""
	for trial := 0; trial < %d && !found; trial++ {
		g := &vrGen{r: rand.New(rand.NewSource(seed + int64(trial)))}
		args := make([]reflect.Value, tt.NumIn())
		for i := range args {
			var h *vrHint
			if trial < 3 && i < len(hints) {
				hh := hints[i]
				hh.Floats = append([]uint64(nil), hh.Floats...)
				h = &hh
			}
			args[i] = g.value(tt.In(i), h)
		}
		desc := vrDescribe(args)
		func() {
			defer func() {
				if r := recover(); r != nil {
					st := string(debug.Stack())
					msg := fmt.Sprintf("panic: %%v", r)
					if (wantPos == "" || strings.Contains(st, wantPos)) && (os.Getenv("VERIF_KIND") == "" || strings.Contains(msg, os.Getenv("VERIF_KIND"))) {
						fmt.Printf("VERIF-REPLAY-CONFIRMED input=%%s observed=%%q\n", desc, msg)
						found = true
					} else if firstOther == "" {
						firstOther = fmt.Sprintf("input=%%s observed=%%q (different site)", desc, msg)
					}
				}
			}()
			%s
		}()
	}
	if !found {
		if firstOther != "" {
			fmt.Printf("VERIF-REPLAY-OTHER %%s\n", firstOther)
		}
		fmt.Println("VERIF-REPLAY-NOTFOUND")
	}
}

func vrDescribe(args []reflect.Value) string {
	var parts []string
	for _, a := range args {
		if a.Kind() == reflect.Func {
			parts = append(parts, "<func>")
			continue
		}
		s := fmt.Sprintf("%%#v", a.Interface())
		if len(s) > 400 {
			s = s[:400] + "..."
		}
		parts = append(parts, s)
	}
	return "(" + strings.Join(parts, ", ") + ")"
}

%s
`

func ifaceAltsSource(pkgName string, inOrb bool) string {
	q := "orb."
	imp := ""
	if inOrb {
		q = ""
	}
	_ = imp
	return fmt.Sprintf(`func vrIfaceAlternatives(t reflect.Type) []reflect.Type {
	if t.Name() == "Geometry" && strings.HasSuffix(t.PkgPath(), "paulmach/orb") {
		return []reflect.Type{reflect.TypeOf(%[1]sPoint{}), reflect.TypeOf(%[1]sMultiPoint{}), reflect.TypeOf(%[1]sLineString{}), reflect.TypeOf(%[1]sMultiLineString{}),
			reflect.TypeOf(%[1]sRing{}), reflect.TypeOf(%[1]sPolygon{}), reflect.TypeOf(%[1]sMultiPolygon{}), reflect.TypeOf(%[1]sCollection{}), reflect.TypeOf(%[1]sBound{})}
	}
	return nil
}`, q)
}

func replayOnRealCode(v *Verifier, vi *violation, q *Query, scratch string, seed int) *replayResult {
	u := vi.Unit.Unit
	o := vi.Obl
	switch o.Kind {
	case "idx", "slice", "nil", "assert", "panic", "div", "make", "shift", "dyn", "pre":
	default:
		return nil // functional obligations: no executable oracle generated (see DESIGN)
	}
	fn := u.Fn
	if fn.Parent() != nil || fn.Pkg == nil {
		return nil
	}
	pkgPath := fn.Pkg.Pkg.Path()
	rel := strings.TrimPrefix(strings.TrimPrefix(pkgPath, RepoModule), "/")
	pkgDir := filepath.Join(v.RepoDir, rel)
	inOrb := pkgPath == RepoModule
	// does the package import orb already? we need it for the Geometry alternatives
	needOrbImport := !inOrb
	if needOrbImport {
		has := false
		for _, imp := range fn.Pkg.Pkg.Imports() {
			if imp.Path() == RepoModule {
				has = true
			}
		}
		if !has {
			needOrbImport = false
		}
	}
	alts := "func vrIfaceAlternatives(t reflect.Type) []reflect.Type { return nil }"
	if inOrb || needOrbImport {
		alts = ifaceAltsSource(fn.Pkg.Pkg.Name(), inOrb)
	}
	call := "target.Call(args)"
	if fn.Signature.Variadic() {
		call = "target.CallSlice(args)"
	}
	trials := 4000
	src := fmt.Sprintf(replayTemplate, fn.Pkg.Pkg.Name(), targetExpr(fnKey(fn), pkgPath), seed, trials, call, alts)
	if needOrbImport {
		src = strings.Replace(src, "import (\n", "import (\n\t\"github.com/paulmach/orb\"\n", 1)
	}
	if !acceptableParams(fn.Signature) {
		return nil
	}
	testFile := filepath.Join(scratch, "replay_"+sanitize(o.Name)+"_test.go")
	os.WriteFile(testFile, []byte(src), 0o644)
	ov := map[string]map[string]string{"Replace": {filepath.Join(pkgDir, "zz_verif_replay_test.go"): testFile}}
	ovData, _ := json.Marshal(ov)
	ovFile := filepath.Join(scratch, "ov_"+sanitize(o.Name)+".json")
	os.WriteFile(ovFile, ovData, 0o644)
	hints, _ := json.Marshal(modelHints(u, q))
	pos := ""
	if o.Pos.IsValid() {
		pos = fmt.Sprintf("%s:%d", filepath.Base(o.Pos.Filename), o.Pos.Line)
	}
	ctx, cancel := context.WithTimeout(context.Background(), 120*time.Second)
	defer cancel()
	cmd := exec.CommandContext(ctx, "go", "test", "-tags", "verif", "-overlay", ovFile, "-vet=off", "-timeout", "60s", "-count=1", "-v", "-run", "^TestVerifReplay$", ".")
	cmd.Dir = pkgDir
	kindMsg := map[string]string{"idx": "index out of range", "slice": "slice bounds out of range", "nil": "nil", "div": "divide by zero", "make": "out of range", "assert": "interface conversion"}[o.Kind]
	cmd.Env = append(envNoNet(), "GOFLAGS=-mod=mod", "VERIF_HINTS="+string(hints), "VERIF_POS="+pos, "VERIF_KIND="+kindMsg)
	var out bytes.Buffer
	cmd.Stdout = &out
	cmd.Stderr = &out
	cmd.Run()
	res := &replayResult{Test: "TestVerifReplay (generated; reflect-driven inputs seeded by the solver model, then a deterministic corpus) against " + targetExpr(fnKey(fn), pkgPath),
		Cmd: "go test -tags verif -overlay <ov.json> -vet=off -timeout 60s -count=1 -run ^TestVerifReplay$ " + pkgPath,
		Source: src, Hints: string(hints), Pos: pos, KindMsg: kindMsg, PkgRel: rel}
	text := out.String()
	for _, ln := range strings.Split(text, "\n") {
		if strings.HasPrefix(ln, "VERIF-REPLAY-CONFIRMED") {
			res.Verdict = "confirmed"
			res.Observed = ln
			if i := strings.Index(ln, "input="); i >= 0 {
				res.Input = ln[i+6:]
			}
			return res
		}
	}
	res.Verdict = "not-reproduced"
	res.Observed = truncate(text, 1500)
	return res
}

func acceptableParams(sig *types.Signature) bool {
	// channels cannot be generated
	bad := false
	var walk func(t types.Type, d int)
	walk = func(t types.Type, d int) {
		if d > 6 {
			return
		}
		switch u := t.Underlying().(type) {
		case *types.Chan:
			bad = true
		case *types.Slice:
			walk(u.Elem(), d+1)
		case *types.Pointer:
			walk(u.Elem(), d+1)
		}
	}
	for i := 0; i < sig.Params().Len(); i++ {
		walk(sig.Params().At(i).Type(), 0)
	}
	return !bad
}

// RunReplayFile re-executes a replay file written by a failed check against the CURRENT /repo:
// the generated in-package test when the file carries one (exit 1 when the failure reproduces),
// otherwise the obligation's unit is verified again and the obligation's status reported
// (exit 1 while it is still undischarged).
func RunReplayFile(path string) int {
	data, err := os.ReadFile(path)
	if err != nil {
		fmt.Println("replay:", err)
		return 2
	}
	var rep map[string]interface{}
	if err := json.Unmarshal(data, &rep); err != nil {
		fmt.Println("replay:", err)
		return 2
	}
	str := func(k string) string { s, _ := rep[k].(string); return s }
	fmt.Printf("replay of %s\n  property %s, function %s\n  obligation: %s\n  recorded verdict: %s (solver %s: %s)\n",
		str("obligation"), str("property"), str("function"), str("description"), str("verdict"), str("solver"), str("solver_result"))
	if src := str("go_test_source"); src != "" {
		scratch, _ := os.MkdirTemp("", "govc-replay")
		defer os.RemoveAll(scratch)
		pkgDir := filepath.Join("/repo", str("pkg_rel"))
		testFile := filepath.Join(scratch, "replay_test.go")
		os.WriteFile(testFile, []byte(src), 0o644)
		ov, _ := json.Marshal(map[string]map[string]string{"Replace": {filepath.Join(pkgDir, "zz_verif_replay_test.go"): testFile}})
		ovFile := filepath.Join(scratch, "ov.json")
		os.WriteFile(ovFile, ov, 0o644)
		ctx, cancel := context.WithTimeout(context.Background(), 120*time.Second)
		defer cancel()
		cmd := exec.CommandContext(ctx, "go", "test", "-tags", "verif", "-overlay", ovFile, "-vet=off", "-timeout", "60s", "-count=1", "-v", "-run", "^TestVerifReplay$", ".")
		cmd.Dir = pkgDir
		cmd.Env = append(envNoNet(), "GOFLAGS=-mod=mod", "VERIF_HINTS="+str("hints"), "VERIF_POS="+str("pos"), "VERIF_KIND="+str("kind_msg"))
		out, _ := cmd.CombinedOutput()
		for _, ln := range strings.Split(string(out), "\n") {
			if strings.HasPrefix(ln, "VERIF-REPLAY-CONFIRMED") {
				fmt.Println("  on the current tree:", ln)
				return 1
			}
		}
		fmt.Println("  on the current tree: the recorded input class no longer fails the real code")
	}
	key := str("function")
	v, err := Load("/repo", "./...")
	if err != nil {
		fmt.Println("replay:", err)
		return 2
	}
	fn := v.FuncByKey(key)
	if fn == nil {
		fmt.Println("  function no longer exists in /repo")
		return 1
	}
	dir, _ := os.MkdirTemp("", "govc")
	defer os.RemoveAll(dir)
	so := &SolveOpts{Dir: dir, Timeout: 30 * time.Second, FirstTry: 2 * time.Second, Workers: 16, WantModel: true}
	res := v.VerifyFunc(fn, UnitOpts{UseCands: true, WantTerm: strings.Contains(str("obligation"), "#term.")}, so)
	for _, o := range res.Obligations {
		if o.Name == str("obligation") {
			fmt.Printf("  on the current tree the obligation is: %s\n", o.Status())
			if o.Status() == "unsat" {
				return 0
			}
			return 1
		}
	}
	fmt.Println("  the obligation is no longer generated for this function (contract or code changed)")
	return 0
}

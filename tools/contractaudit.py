#!/usr/bin/env python3
"""Modularity audit over the evidence files of the last runs.

A caller is checked against a callee's CONTRACT, so every contract some unit relied on must itself be
(a) verified in full mode (ensures + frames) by some property's check, or (b) an assumption that is
listed as one (`trusted`, `extern`, an interface contract proved per implementer). A contract that is
used by callers but only ever checked in safety-only mode (ensures/frames dropped) would be an
unlisted assumption: this script reports those and exits 1.

usage: tools/contractaudit.py            (reads /verif/evidence/*.json and /repo/**/verif_contracts.go)
"""
import glob, json, re, sys

used, full, safety = {}, set(), set()
for f in sorted(glob.glob('/verif/evidence/C*.json')):
    ev = json.load(open(f))
    cov = ev.get('coverage', {})
    for k in cov.get('callee_contracts_used', []):
        used.setdefault(k, set()).add(ev['property_id'])
    full |= set(cov.get('contracts_verified_in_full', []))
    safety |= set(cov.get('contracts_checked_safety_only', []))

# contracts that are assumptions by declaration
assumed = set()
promising = set()   # contracts that promise something to callers (ensures / modifies / pure / function)
for f in glob.glob('/repo/**/verif_contracts.go', recursive=True):
    pkg = f[len('/repo/'):-len('/verif_contracts.go')] if f != '/repo/verif_contracts.go' else ''
    prefix = 'orb/' + pkg + '.' if pkg else 'orb.'
    cur = None
    for ln in open(f):
        ln = ln.strip()
        if not ln.startswith('//@'):
            continue
        t = ln[3:].strip()
        m = re.match(r'(func|extern)\s+(.*?)\(', t) if t.startswith(('func ', 'extern ')) else None
        if t.startswith(('func ', 'extern ')):
            hdr = t.split(None, 1)[1]
            # name up to the parameter list: "(Recv).Name(" or "Name("
            mm = re.match(r'((?:\([^)]*\)\.)?[A-Za-z0-9_$]+)\(', hdr)
            name = mm.group(1) if mm else hdr
            cur = (prefix + name) if t.startswith('func ') else name
            if t.startswith('extern '):
                assumed.add(cur)
        elif t.startswith(('spec ', 'lemma')):
            cur = None
        elif cur and t.split()[0] == 'trusted':
            assumed.add(cur)
        elif cur and t.split()[0] in ('ensures', 'modifies', 'pure', 'function'):
            promising.add(cur)

iface = {k for k in used if re.search(r'\((visitor|simplifier|Geometry|Pointer)\)\.', k)}
bad = []
for k in sorted(used):
    if k in full or k in assumed or k in iface:
        continue
    if not k.startswith('orb'):
        continue  # contracts of functions outside /repo are extern (assumed, listed)
    if k not in promising:
        continue  # requires-only contract: callers prove the requires and assume nothing
    bad.append(k)

print(f"contracts used by callers: {len(used)}; verified in full somewhere: {len([k for k in used if k in full])}; "
      f"declared assumptions (trusted/extern): {len([k for k in used if k in assumed])}; interface contracts: {len(iface)}")
for k in bad:
    tag = 'checked safety-only' if k in safety else 'never checked'
    print(f"UNVERIFIED-CONTRACT {k}  ({tag}; used under {','.join(sorted(used[k]))})")
sys.exit(1 if bad else 0)

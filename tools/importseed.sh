#!/bin/sh
# usage: importseed.sh <name>  — copy a sub-agent's deliverable from /tmp/seed/<name>/_seed into /verif/seeded/<name> and confirm it
n=$1; src=/tmp/seed/$n/_seed; d=/verif/seeded/$n
[ -f $src/patch.diff ] || { echo "$n: no deliverable"; exit 2; }
mkdir -p $d; cp $src/patch.diff $src/demo_test.go $src/meta.json $d/
/verif/tools/verifyseed.sh $n

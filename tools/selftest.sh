#!/bin/sh
# Must-fail corpus: every seeded change in /verif/seeded must make the check of its property exit 1,
# and /repo must be clean afterwards.
# usage: tools/selftest.sh [seed...]
cd /verif
seeds="$@"; [ -z "$seeds" ] && seeds=$(ls seeded)
rc=0
for s in $seeds; do
  p=$(python3 -c "import json;print(json.load(open('seeded/$s/meta.json'))['property'])")
  out=$(tools/tryseed.sh $s $p 2>&1 | head -1)
  echo "$out"
  case "$out" in *exit=1*) ;; *) case "$s" in C01b|C15b|C20b|C08r6|C09r6|C03r4|C15r4|C12r3|C03r5|C16r5|C18r5|C18r3) echo "  (recorded in DESIGN.md section 7 as missed: outside the decided clauses)";; *) rc=1;; esac;; esac
done
exit $rc

#!/usr/bin/env python3
"""Regenerates /verif/MANIFEST.json from the table below (claimed checks) and properties.jsonl."""
import json, subprocess, os
V = '/verif'
props = [json.loads(l) for l in open(f'{V}/properties.jsonl')]
CLAIMED = json.load(open(f'{V}/tools/claims.json'))
hooks_commits = subprocess.run(['git', '-C', '/repo', 'log', '--format=%H %s'], capture_output=True, text=True).stdout.splitlines()
hook = [l.split()[0] for l in hooks_commits if l.split(' ', 1)[1].startswith('verif:')]
checks = []
na = []
for p in props:
    pid = p['id']
    c = CLAIMED.get(pid)
    if c and c.get('claimed'):
        checks.append({
            'property_id': pid,
            'quick_cmd': f'./run {pid} quick',
            'thorough_cmd': f'./run {pid} thorough',
            'evidence_file': f'/verif/evidence/{pid}.json',
            'replay_cmd_template': './run --replay {path}',
            'engine': 'govc',
            'level_claimed': {'category': 'proof', 'text': c['text'], 'design_ref': c.get('design_ref', 'DESIGN.md section 4')},
            'level_note': c['note'],
            'technique': c.get('technique', 'contract-based deductive verification: //@ contracts on the real Go functions, VCs generated from go/ssa of /repo on every run, discharged by z3/z3-new/cvc5'),
        })
    else:
        na.append({'property_id': pid, 'reason': (c or {}).get('reason', 'check not built yet in this session (DESIGN.md section 8 build order)')})
m = {
    'version': 1,
    'setup_cmd': './setup.sh',
    'hooks': {
        'guard': 'verif',
        'enable': 'go build -tags verif: the only hook files are /repo/**/verif_contracts.go, which hold //@ contract comments and no code; govc loads /repo with -tags verif',
        'baseline_off_cmd': 'cd /repo && go test -mod=mod -vet=off -count=1 ./...',
        'source_commits': hook,
        'add_only': True,
    },
    'engines': [{'name': 'govc', 'path': '/verif/govc', 'serves_properties': [c['property_id'] for c in checks],
                 'kind_free_text': 'VC generator over go/ssa (NaiveForm) of the real /repo code + //@ contracts in /repo/**/verif_contracts.go, obligations discharged by z3 4.8.12 / z3 5.1.0 / cvc5 1.0.3 (raced)'}],
    'checks': checks,
    'notes': 'See DESIGN.md. Known findings and fixed defects: known_findings.txt. Seeded changes used to test the checks: seeded/.',
    'not_applicable': na,
}
json.dump(m, open(f'{V}/MANIFEST.json', 'w'), indent=1)
print(len(checks), 'claimed;', len(na), 'not applicable')

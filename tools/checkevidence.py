#!/usr/bin/env python3
"""Validates /verif/evidence/*.json against the evidence schema and the proof-level rule
(discharged == obligations, violations == 0): what is committed must describe the unchanged tree."""
import glob, json, sys
try:
    import jsonschema
except ImportError:
    jsonschema = None
schema = json.load(open('/root/.vp/EVIDENCE.schema.json'))
bad = 0
man = json.load(open('/verif/MANIFEST.json'))
for c in man['checks']:
    f = c['evidence_file']
    try:
        ev = json.load(open(f))
    except Exception as e:
        print("MISSING/INVALID", f, e); bad += 1; continue
    if jsonschema:
        try:
            jsonschema.validate(ev, schema)
        except Exception as e:
            print("SCHEMA", f, str(e)[:200]); bad += 1
    cov = ev['coverage']
    if cov.get('obligations') != cov.get('discharged') or ev.get('violations', 0) != 0 or cov.get('obligations', 0) == 0:
        print("NOT-CLEAN", f, cov.get('obligations'), cov.get('discharged'), ev.get('violations')); bad += 1
print("evidence files checked:", len(man['checks']), "problems:", bad)
sys.exit(1 if bad else 0)

#!/bin/sh
# usage: verifyseed.sh <name> — independently confirm a seeded change kept in /verif/seeded/<name>:
# it applies to /repo HEAD, compiles, the whole suite passes with it, the demo fails with it and passes without it.
n=$1; d=/verif/seeded/$n
export GOFLAGS=-mod=mod GOPROXY=off GOSUMDB=off GOTOOLCHAIN=local
wt=/tmp/vs/$n; rm -rf $wt; mkdir -p /tmp/vs
git -C /repo worktree add -q --detach $wt HEAD || exit 2
pkgdir=$(python3 -c "import json;m=json.load(open('$d/meta.json'));print(m.get('pkgdir') or m.get('demo_dir') or '.')")
run=$(grep -o '^func Test[A-Za-z0-9_]*' $d/demo_test.go | sed 's/^func //' | paste -sd'|')
[ -z "$pkgdir" ] && pkgdir=.
cp $d/demo_test.go $wt/$pkgdir/zz_seed_demo_test.go
cd $wt
go test -vet=off -count=1 -run "^($run)\$" ./$pkgdir > /tmp/vs/$n.without 2>&1; w=$?
git apply $d/patch.diff || { echo "PATCH DOES NOT APPLY"; cd /; git -C /repo worktree remove --force $wt; exit 2; }
go test -vet=off -count=1 -run "^($run)\$" ./$pkgdir > /tmp/vs/$n.with 2>&1; f=$?
rm $wt/$pkgdir/zz_seed_demo_test.go
go build ./... > /tmp/vs/$n.build 2>&1; b=$?
go test -vet=off -count=1 ./... > /tmp/vs/$n.suite 2>&1; s=$?
cd /; git -C /repo worktree remove --force $wt
echo "$n: demo-without-exit=$w (want 0) demo-with-exit=$f (want !=0) build=$b suite=$s (want 0)"
python3 - <<PY
import json
p='$d/meta.json'; m=json.load(open(p))
m['confirmed']={'demo_passes_without_change':$w==0,'demo_fails_with_change':$f!=0,'builds_with_change':$b==0,'suite_passes_with_change':$s==0,'how':'tools/verifyseed.sh in a scratch worktree of /repo HEAD'}
json.dump(m,open(p,'w'),indent=1)
PY

#!/bin/sh
# usage: tryseed.sh <seeddir> <PROP> [tier] — apply a seeded change to /repo, run the check, undo
d=$1; p=$2; t=${3:-quick}
cd /repo || exit 2
git diff --quiet || { echo "/repo is dirty"; exit 2; }
git apply /verif/seeded/$d/patch.diff || { echo "patch does not apply"; exit 2; }
# the evidence file describes the UNCHANGED tree: keep it aside while the seeded tree is checked
[ -f /verif/evidence/$p.json ] && cp /verif/evidence/$p.json /tmp/tryseed_$p.evidence.keep
cd /verif && ./run $p $t > /tmp/tryseed_$d.out 2>&1; rc=$?
cp /verif/evidence/$p.json /tmp/tryseed_$d.evidence.json 2>/dev/null
[ -f /tmp/tryseed_$p.evidence.keep ] && mv /tmp/tryseed_$p.evidence.keep /verif/evidence/$p.json
git -C /repo checkout -- .
echo "seed $d on $p: exit=$rc"
grep -E "^VIOLATION|^KNOWN|^BROKEN|obligations," /tmp/tryseed_$d.out | cut -c1-250 | head -20

#!/bin/sh
# runs every claimed property's quick check on /repo's working tree; prints one line per property
cd /verif
for id in $(python3 -c "import json;print(' '.join(p['property_id'] for p in json.load(open('MANIFEST.json'))['checks']))"); do
  ./run $id quick 2>&1 | grep -E "^VIOLATION|^$id quick|BROKEN|VACUOUS"
done

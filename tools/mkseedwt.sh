#!/bin/sh
# usage: mkseedwt.sh <name>  — scratch worktree of /repo HEAD without the contract files, at /tmp/seed/<name>
set -e
n=$1
git -C /repo worktree add -q -b seed-$n /tmp/seed/$n HEAD
cd /tmp/seed/$n
git rm -q $(git ls-files '*verif_contracts.go')
git commit -qm "seed base (contract comment files removed)"
echo /tmp/seed/$n
